// engine sstcodec (property C17): the real sst.TableWriter / sst.Table / bloom.Filter / wal.Writer / wal.Reader on the
// memory filesystem.
//
//	kind "tab": a key-sorted entry run is written with TableWriter.Write (target 0) or WriteRun (target > 0); every table
//	            is read back by a full scan, point lookups and prefix scans, fresh and after re-opening from its Document.
//	kind "wal": a history of put/delete/cut/truncate/rotate on the current writer; every writer sealed by a rotate is
//	            saved and read back with several start markers.
package main

import (
	"bytes"
	"encoding/binary"
	"encoding/json"
	"errors"
	"fmt"
	"io"
	"runtime"
	"slices"
	"sort"
	"strings"
	"sync"
	"time"
	"unicode/utf8"

	"reduction.dev/reduction/dkv/bloom"
	"reduction.dev/reduction/dkv/kv"
	"reduction.dev/reduction/dkv/sst"
	"reduction.dev/reduction/dkv/storage"
	"reduction.dev/reduction/dkv/wal"
	"verifharness/hx"
)

type eng struct{}

func (eng) Name() string { return "sstcodec" }
func (eng) CoqRequire(mode string) string {
	return "From RV Require Import Model.SstTable Model.WriteRun Model.WalCodec Corr.Check_sstcodec."
}
func (eng) CoqCaseType(mode string) string { return "Check_sstcodec.case" }
func (eng) CoqRun(mode string) string      { return "Check_sstcodec.run" }
func (eng) Rule(mode string) string {
	return "tab cases: strictly key-sorted runs of 0..~100 entries (sizes 0,1,15..17,31..33,47..49 forced; keys empty/binary/prefixes of each other; " +
		"tombstones; empty and large values), written whole or split with targets at / just below / just above chunk sums and 2/3 of the total " +
		"(1.5x look-ahead boundary), plus large runs (5000 entries) whose bloom filter yields false positives before the first key, between keys " +
		"and after the last key; lookups present / absent-between / before-first / after-last / prefix-of-key on the owning table and its neighbours. " +
		"wal cases: random histories of put/delete/cut/truncate/rotate (truncate after rotate, empty segments, writers starting at a high sequence number), " +
		"every saved file read with every start marker around the valid window. Non-trivial: a tab case with >= 2 entries and >= 1 lookup, " +
		"a wal case with >= 1 rotate after >= 1 append; distinct by hash of the case."
}

// ---------- ops ----------

type op struct {
	Op  string `json:"op"` // tab: "e" entry, "get", "scan", "bloom"; wal: "put","del","cut","trunc","rotate"
	K   []byte `json:"k,omitempty"`
	V   []byte `json:"v,omitempty"`
	Seq uint64 `json:"seq,omitempty"`
	Del bool   `json:"del,omitempty"`
	S   uint64 `json:"s,omitempty"` // trunc argument
}

type ent struct {
	k, v []byte
	seq  uint64
	del  bool
}

func (e *ent) Key() []byte    { return e.k }
func (e *ent) Value() []byte  { return e.v }
func (e *ent) SeqNum() uint64 { return e.seq }
func (e *ent) IsDelete() bool { return e.del }

// faultFS opens files whose ReadAt number [countdown] (counted from arm) fails once with a non-EOF error.
type faultCtl struct {
	countdown int // -1 = healthy
	fired     bool
}

func (c *faultCtl) arm(k int) { c.countdown, c.fired = k, false }
func (c *faultCtl) disarm()   { c.countdown = -1 }

var errInjected = errors.New("injected transient storage read failure")

type faultFS struct {
	storage.FileSystem
	ctl *faultCtl
}

func (f *faultFS) Open(path string) storage.File {
	return &faultFile{File: f.FileSystem.Open(path), ctl: f.ctl}
}

type faultFile struct {
	storage.File
	ctl *faultCtl
}

func (f *faultFile) ReadAt(p []byte, off int64) (int, error) {
	if f.ctl.countdown == 0 {
		f.ctl.countdown = -1
		f.ctl.fired = true
		return 0, errInjected
	}
	if f.ctl.countdown > 0 {
		f.ctl.countdown--
	}
	return f.File.ReadAt(p, off)
}

type neverOwns struct{}

func (neverOwns) OwnsKey([]byte) bool                                       { return true }
func (neverOwns) ExclusivelyOwnsTable(string, []byte, []byte) (bool, error) { return false, nil }

// coqBytes prints a long constant byte string as a repeat (terms are expensive to load)
func coqBytes(b []byte) string {
	if len(b) > 64 {
		same := true
		for _, x := range b {
			if x != b[0] {
				same = false
				break
			}
		}
		if same {
			return fmt.Sprintf("(repeat %d (N.to_nat %d))", b[0], len(b))
		}
	}
	return hx.CoqBytes(b)
}

func coqEntry(k, v []byte, seq uint64, del bool) string {
	return fmt.Sprintf("(mkE %s %s %d %s)", hx.CoqBytes(k), coqBytes(v), seq, hx.CoqBool(del))
}
func coqEntries(es []string) string { return hx.CoqList(es, "entry") }
func coqOptEntries(es []string, failed bool) string {
	if failed {
		return "(@None (list entry))"
	}
	return "(Some " + coqEntries(es) + ")"
}

// ---------- generation ----------

func randKeyPool(r *hx.Rand, n int) [][]byte {
	style := r.Intn(5)
	seen := map[string]bool{}
	var keys [][]byte
	add := func(k []byte) {
		if !seen[string(k)] {
			seen[string(k)] = true
			keys = append(keys, k)
		}
	}
	if r.Chance(1, 3) {
		add([]byte{})
	}
	for tries := 0; len(keys) < n && tries < 20*n+50; tries++ {
		var k []byte
		switch style {
		case 0: // tiny alphabet: many keys are prefixes of each other
			l := r.Range(0, 5)
			k = make([]byte, l)
			for i := range k {
				k[i] = []byte{0, 'a', 'b', 0xff}[r.Intn(4)]
			}
		case 1: // extensions of existing keys
			if len(keys) > 0 && r.Chance(2, 3) {
				base := hx.Pick(r, keys)
				k = append(append([]byte{}, base...), r.Bytes(r.Range(1, 2))...)
			} else {
				k = r.Bytes(r.Range(0, 3))
			}
		case 2: // ascii with a common prefix
			k = []byte(fmt.Sprintf("k%03d", r.Intn(4*n+4)))
		case 3: // binary
			k = r.Bytes(r.Range(0, 12))
		default: // two groups of prefixes
			k = append([]byte{byte('p' + r.Intn(2))}, r.Bytes(r.Range(0, 3))...)
		}
		add(k)
	}
	return keys
}

func randVal(r *hx.Rand) []byte {
	switch r.Intn(8) {
	case 0:
		return []byte{}
	case 1:
		return r.Bytes(r.Range(40, 120))
	default:
		return r.Bytes(r.Range(0, 9))
	}
}

func flushSize(o op) int { return 17 + len(o.K) + len(o.V) }

func genTab(r *hx.Rand, n int, deep bool) *hx.Case {
	keys := randKeyPool(r, n)
	slices.SortFunc(keys, bytes.Compare)
	var ops []json.RawMessage
	var es []op
	tombP := r.Intn(4) // 0: none
	for _, k := range keys {
		o := op{Op: "e", K: k, V: randVal(r), Seq: r.U64() >> uint(r.Intn(64))}
		if tombP > 0 && r.Chance(tombP, 6) {
			o.Del = true
			if r.Chance(2, 3) {
				o.V = nil
			}
		}
		es = append(es, o)
		ops = append(ops, hx.Op(o))
	}
	// target
	total := 0
	var prefixSums []int
	for _, e := range es {
		total += flushSize(e)
		prefixSums = append(prefixSums, total)
	}
	target := 0
	if len(es) > 0 {
		switch r.Intn(9) {
		case 0:
			target = 0
		case 1:
			target = 1
		case 2: // exactly at a prefix sum, or one off
			target = hx.Pick(r, prefixSums) + r.Range(-1, 1)
		case 3: // total = 1.5 * target boundary
			target = total*2/3 + r.Range(-2, 2)
		case 4:
			target = total + r.Range(-1, 1)
		case 5:
			target = total/r.Range(2, 6) + r.Range(-1, 1)
		case 6:
			target = r.Range(17, 60)
		default:
			target = r.Range(1, total+20)
		}
		if target < 0 {
			target = 0
		}
	} else if r.Bool() {
		target = r.Range(1, 50)
	}
	// lookups
	addGet := func(k []byte) { ops = append(ops, hx.Op(op{Op: "get", K: k})) }
	for i, k := range keys {
		if len(keys) <= 14 || r.Chance(14, len(keys)) || i%16 == 0 || i%16 == 15 || i == len(keys)-1 {
			addGet(k)
		}
		if r.Chance(1, 3) {
			addGet(append(append([]byte{}, k...), 0)) // just after k
		}
		if r.Chance(1, 4) && len(k) > 0 {
			addGet(k[:len(k)-1]) // a prefix of k
		}
		if r.Chance(1, 5) && len(k) > 0 && k[len(k)-1] > 0 {
			kk := append([]byte{}, k...)
			kk[len(kk)-1]--
			addGet(append(kk, 0xff)) // just before k
		}
	}
	addGet([]byte{})
	addGet([]byte{0})
	addGet([]byte{0xff, 0xff, 0xff, 0xff, 0xff, 0xff, 0xff, 0xff, 0xff, 0xff, 0xff, 0xff, 0xff, 0xff})
	for i := 0; i < 3; i++ {
		addGet(r.Bytes(r.Range(0, 4)))
	}
	// prefix scans
	addScan := func(p []byte) { ops = append(ops, hx.Op(op{Op: "scan", K: p})) }
	addScan([]byte{})
	for i := 0; i < 4 && len(keys) > 0; i++ {
		k := hx.Pick(r, keys)
		addScan(k[:r.Intn(len(k)+1)])
		if r.Chance(1, 3) {
			addScan(append(append([]byte{}, k...), byte(r.Intn(256))))
		}
	}
	addScan(r.Bytes(1))
	// bloom probes
	for i := 0; i < 6 && len(keys) > 0; i++ {
		ops = append(ops, hx.Op(op{Op: "bloom", K: hx.Pick(r, keys)}))
	}
	for i := 0; i < 3; i++ {
		ops = append(ops, hx.Op(op{Op: "bloom", K: r.Bytes(r.Range(0, 6))}))
	}
	return &hx.Case{Name: "tab", Params: map[string]any{"mode": "c17", "kind": "tab", "target": target, "deep": deep}, Ops: ops}
}

// a large run whose bloom filter is dense enough for false positives; lookups for them are derived in Execute
func genBig(r *hx.Rand, n int, split bool) *hx.Case {
	step := r.Range(1, 4)
	params := map[string]any{"mode": "c17", "kind": "tab", "target": 0, "deep": false, "fp": true, "dense": n, "dense_step": step}
	if split {
		params["dense_split"] = 2
	}
	ops := []json.RawMessage{hx.Op(op{Op: "scan", K: []byte("m0001")}), hx.Op(op{Op: "get", K: []byte("m00000a")}), hx.Op(op{Op: "get", K: []byte("m")})}
	return &hx.Case{Name: "big", Params: params, Ops: ops}
}

func genWal(r *hx.Rand, deep bool) *hx.Case {
	var ops []json.RawMessage
	s0 := uint64(0)
	switch r.Intn(4) {
	case 0:
		s0 = uint64(r.Range(1, 1000))
	case 1:
		s0 = r.U64() >> uint(r.Range(1, 40))
	}
	cur := s0
	n := r.Range(1, 36)
	cutP, trP, rotP := r.Range(1, 5), r.Range(0, 4), r.Range(1, 3)
	appended := false
	rotated := false
	for i := 0; i < n; i++ {
		x := r.Intn(16)
		switch {
		case x < cutP:
			ops = append(ops, hx.Op(op{Op: "cut"}))
		case x < cutP+trP:
			var s uint64
			switch r.Intn(6) {
			case 0:
				s = cur + uint64(r.Range(1, 3))
			case 1:
				if s0 > 0 {
					s = s0 - 1
				}
			default:
				s = s0 + uint64(r.Intn(int(cur-s0)+1))
			}
			ops = append(ops, hx.Op(op{Op: "trunc", S: s}))
		case x < cutP+trP+rotP:
			ops = append(ops, hx.Op(op{Op: "rotate"}))
			rotated = rotated || appended
		default:
			cur++
			appended = true
			if r.Chance(1, 4) {
				ops = append(ops, hx.Op(op{Op: "del", K: r.Bytes(r.Range(0, 5))}))
			} else {
				ops = append(ops, hx.Op(op{Op: "put", K: r.Bytes(r.Range(0, 5)), V: r.Bytes(r.Range(0, 7))}))
			}
		}
	}
	ops = append(ops, hx.Op(op{Op: "rotate"}))
	return &hx.Case{Name: "wal", Params: map[string]any{"mode": "c17", "kind": "wal", "s0": s0, "deep": deep}, Ops: ops}
}

func (eng) Generate(mode, tier string, r *hx.Rand) []*hx.Case {
	nTab, nMid, nBig, nWal := 84, 5, 1, 130
	if tier == "thorough" {
		nTab, nMid, nBig, nWal = 600, 40, 3, 1000
	}
	var heavy, tabs, wals []*hx.Case
	forced := []int{0, 1, 2, 15, 16, 17, 31, 32, 33, 47, 48, 49, 64, 65}
	for i := 0; i < nTab; i++ {
		n := r.Range(0, 40)
		if i < 2*len(forced) {
			n = forced[i%len(forced)]
		} else if r.Chance(1, 5) {
			n = r.Range(40, 70)
		}
		tabs = append(tabs, genTab(r.Fork(), n, i < 2*len(forced) || i%3 != 2))
	}
	for i := 0; i < nMid; i++ {
		heavy = append(heavy, genTab(r.Fork(), r.Range(70, 220), false))
	}
	for i := 0; i < nBig; i++ {
		heavy = append(heavy, genBig(r.Fork(), 2300+r.Intn(200), false))
		heavy = append(heavy, genBig(r.Fork(), 2800+r.Intn(200), true))
	}
	for i := 0; i < nWal; i++ {
		wals = append(wals, genWal(r.Fork(), i%3 != 2))
	}
	// The Coq side evaluates shards of consecutive cases in parallel: deal the cases into buckets of about one shard
	// so that the expensive ones (dense, mid-size, deep) are spread evenly.
	total := len(heavy) + len(tabs) + len(wals)
	k := (total + 19) / 20
	buckets := make([][]*hx.Case, k)
	j := 0
	for _, group := range [][]*hx.Case{heavy, tabs, wals} {
		for _, c := range group {
			buckets[j%k] = append(buckets[j%k], c)
			j++
		}
	}
	var cs []*hx.Case
	for _, b := range buckets {
		cs = append(cs, b...)
	}
	return cs
}

// ---------- execution ----------

func pInt(c *hx.Case, name string) uint64 {
	switch v := c.Params[name].(type) {
	case float64:
		return uint64(v)
	case int:
		return uint64(v)
	case uint64:
		return v
	case json.Number:
		n, _ := v.Int64()
		return uint64(n)
	}
	return 0
}
func pBool(c *hx.Case, name string) bool { b, _ := c.Params[name].(bool); return b }

// hung is set when the real code did not come back on some case: its goroutine is still spinning (possibly
// allocating), so the remaining cases are not run.
var hung bool

const caseDeadline = 60 * time.Second

func (e eng) Execute(mode string, c *hx.Case) (*hx.Result, error) {
	if hung {
		panic("not run: the implementation did not terminate on an earlier case")
	}
	var ops []op
	for _, raw := range c.Ops {
		var o op
		if err := json.Unmarshal(raw, &o); err != nil {
			return nil, err
		}
		ops = append(ops, o)
	}
	kind, _ := c.Params["kind"].(string)
	type out struct {
		res *hx.Result
		err error
		pan any
	}
	ch := make(chan out, 1)
	go func() {
		defer func() {
			if p := recover(); p != nil {
				ch <- out{pan: p}
			}
		}()
		switch kind {
		case "tab":
			r, err := execTab(c, ops)
			ch <- out{res: r, err: err}
		case "wal":
			r, err := execWal(c, ops)
			ch <- out{res: r, err: err}
		default:
			ch <- out{err: fmt.Errorf("unknown kind %q", kind)}
		}
	}()
	select {
	case o := <-ch:
		if o.pan != nil {
			panic(o.pan) // recorded by hx with the case as replay
		}
		return o.res, o.err
	case <-time.After(caseDeadline):
		hung = true
		panic(fmt.Sprintf("the implementation did not terminate within %v on this case (%s)", caseDeadline, kind))
	}
}

type getRes struct {
	term string
	tag  string
}

func safeGet(t *sst.Table, key []byte) (res getRes) {
	defer func() {
		if p := recover(); p != nil {
			res = getRes{"GPanic", "panic"}
		}
	}()
	e, err := t.Get(key)
	if errors.Is(err, kv.ErrNotFound) {
		return getRes{"GNotFound", "notfound"}
	}
	if err != nil {
		return getRes{"GErr", "err"}
	}
	tag := "found"
	if e.IsDelete() {
		tag = "found-tombstone"
	}
	return getRes{"(GFound " + coqEntry(e.Key(), e.Value(), e.SeqNum(), e.IsDelete()) + ")", tag}
}

func safeScan(t *sst.Table, prefix []byte) (out []string, failed bool) {
	defer func() {
		if p := recover(); p != nil {
			failed = true
		}
	}()
	var scanErr error
	for e := range t.ScanPrefix(prefix, &scanErr) {
		out = append(out, coqEntry(e.Key(), e.Value(), e.SeqNum(), e.IsDelete()))
	}
	return out, scanErr != nil
}

func safeLevelScan(ll *sst.LevelList, prefix []byte) (out []string, failed bool) {
	defer func() {
		if p := recover(); p != nil {
			failed = true
		}
	}()
	var scanErr error
	for e := range ll.ScanPrefixEntries(prefix, &scanErr) {
		out = append(out, coqEntry(e.Key(), e.Value(), e.SeqNum(), e.IsDelete()))
	}
	return out, scanErr != nil
}

func safeLevelGet(ll *sst.LevelList, key []byte) (res getRes) {
	defer func() {
		if p := recover(); p != nil {
			res = getRes{"GPanic", "panic"}
		}
	}()
	e, err := ll.Get(key)
	if errors.Is(err, kv.ErrNotFound) {
		return getRes{"GNotFound", "notfound"}
	}
	if err != nil {
		return getRes{"GErr", "err"}
	}
	return getRes{"(GFound " + coqEntry(e.Key(), e.Value(), e.SeqNum(), e.IsDelete()) + ")", "found"}
}

// tableParams are the writer-side constants of the code under test (index spacing, bloom filter bits and hashes). The
// property does not fix them, so they are read off a probe table written with the real TableWriter: the bloom block
// states its size and hash count, the second index offset divided by the (constant) entry size is the spacing.
type tableParams struct {
	spacing int
	bits    uint32
	hashes  int
}

var (
	probeOnce sync.Once
	probed    tableParams
	probeErr  error
)

func probeParams() (tableParams, error) {
	probeOnce.Do(func() {
		const n = 4000
		fs := storage.NewMemoryFilesystem()
		var es []kv.Entry
		for i := 0; i < n; i++ {
			es = append(es, &ent{k: []byte(fmt.Sprintf("%08d", i)), v: []byte{}, seq: uint64(i + 1)})
		}
		t, err := sst.NewTableWriter(fs, 0).Write(slices.Values(es))
		if err != nil {
			probeErr = err
			return
		}
		defer runtime.KeepAlive(t)
		d := t.Document()
		raw := make([]byte, d.Size)
		if _, err := fs.Open(d.URI).ReadAt(raw, 0); err != nil && err != io.EOF {
			probeErr = err
			return
		}
		le32 := func(o uint64) uint32 { return binary.LittleEndian.Uint32(raw[o:]) }
		if len(raw) < 12 {
			probeErr = fmt.Errorf("probe table too short")
			return
		}
		meta := binary.LittleEndian.Uint64(raw[len(raw)-12:])
		if meta+8 > uint64(len(raw)) {
			probeErr = fmt.Errorf("probe table: bad meta offset")
			return
		}
		bits, hashes := le32(meta), le32(meta+4)
		idx := meta + 8 + uint64((bits+63)/64)*8
		if idx+4 > uint64(len(raw)) {
			probeErr = fmt.Errorf("probe table: bad bloom block")
			return
		}
		m := le32(idx)
		sp := n
		if m >= 2 {
			const entrySize = 4 + 8 + 8 + 1 + 4
			sp = int(le32(idx+8)) / entrySize
		}
		if sp < 1 || bits == 0 {
			probeErr = fmt.Errorf("probe table: spacing %d bits %d", sp, bits)
			return
		}
		probed = tableParams{spacing: sp, bits: bits, hashes: int(hashes)}
	})
	return probed, probeErr
}

func execTab(c *hx.Case, ops []op) (*hx.Result, error) {
	tp, err := probeParams()
	if err != nil {
		return nil, fmt.Errorf("cannot determine the table writer's constants: %v", err)
	}
	target := pInt(c, "target")
	deep := pBool(c, "deep")
	fp := pBool(c, "fp")
	var es []*ent
	var gets, scans, blooms [][]byte
	for _, o := range ops {
		switch o.Op {
		case "e":
			es = append(es, &ent{k: nz(o.K), v: nz(o.V), seq: o.Seq, del: o.Del})
		case "get":
			gets = append(gets, nz(o.K))
		case "scan":
			scans = append(scans, nz(o.K))
		case "bloom":
			blooms = append(blooms, nz(o.K))
		}
	}
	// a dense synthetic run (bloom false-positive regime) is described by its size only, to keep cases small
	if n := int(pInt(c, "dense")); n > 0 {
		step := int(pInt(c, "dense_step"))
		if step < 1 {
			step = 1
		}
		for i := 0; i < n; i++ {
			e := &ent{k: []byte(fmt.Sprintf("m%05d%c", i*step, 'a'+i%26)), v: []byte{}, seq: uint64(i + 1), del: i%9 == 4}
			if i%5 == 0 {
				e.v = []byte{byte(i), byte(i >> 8)}
			}
			if i == n/20 || i == n/3 || i == 2*n/3 { // pushes later entries beyond offset 65536
				e.v = make([]byte, 14000)
				e.del = false
			}
			es = append(es, e)
		}
	}
	if k := pInt(c, "dense_split"); k > 0 { // target for about k tables
		total := uint64(0)
		for _, e := range es {
			total += uint64(17 + len(e.k) + len(e.v))
		}
		target = total/k + 40
	}
	// the run must be strictly key-sorted (the shrinker may delete entries, never reorder them; be safe anyway)
	sort.SliceStable(es, func(i, j int) bool { return bytes.Compare(es[i].k, es[j].k) < 0 })
	es = slices.CompactFunc(es, func(a, b *ent) bool { return bytes.Equal(a.k, b.k) })
	if deep && len(es) > 120 {
		deep = false
	}

	fs := storage.NewMemoryFilesystem()
	tw := sst.NewTableWriter(fs, 0)
	kvs := make([]kv.Entry, len(es))
	for i, e := range es {
		kvs[i] = e
	}
	var tables []*sst.Table
	if target == 0 {
		var t *sst.Table
		t, err = tw.Write(slices.Values(kvs))
		tables = []*sst.Table{t}
	} else {
		tables, err = tw.WriteRun(slices.Values(kvs), target)
	}
	if err != nil {
		return nil, fmt.Errorf("write: %v", err)
	}
	defer runtime.KeepAlive(tables) // a collected fresh table deletes its file

	tags := []string{"tab", nTag("entries", len(es)), fmt.Sprintf("tables=%s", bucket(len(tables)))}
	if target == 0 {
		tags = append(tags, "write-whole")
	}
	// Re-opening goes the way a restore does: every Document is stored with encoding/json (the checkpoint file of
	// dkv/recovery: {"checkpoints":[{"levels":[[TableDocument...]]}]}) and read back before NewTableFromDocument.
	type ckptDoc struct {
		Levels [][]sst.TableDocument `json:"levels"`
	}
	type ckptListDoc struct {
		Checkpoints []ckptDoc `json:"checkpoints"`
	}
	docs := make([]sst.TableDocument, len(tables))
	for i, t := range tables {
		docs[i] = t.Document()
	}
	data, err := json.Marshal(ckptListDoc{Checkpoints: []ckptDoc{{Levels: [][]sst.TableDocument{docs}}}})
	if err != nil {
		return nil, fmt.Errorf("json.Marshal of the documents: %v", err)
	}
	var back ckptListDoc
	if err := json.Unmarshal(data, &back); err != nil {
		return nil, fmt.Errorf("json.Unmarshal of the documents: %v", err)
	}
	if len(back.Checkpoints) != 1 || len(back.Checkpoints[0].Levels) != 1 || len(back.Checkpoints[0].Levels[0]) != len(tables) {
		return nil, fmt.Errorf("documents lost in the JSON round trip")
	}
	rdocs := back.Checkpoints[0].Levels[0]
	reopened := make([]*sst.Table, len(tables))
	var otabs []string
	type rng struct{ start, end []byte }
	var ranges []rng
	var tableKeys [][][]byte
	for i, t := range tables {
		d := docs[i]
		reopened[i] = sst.NewTableFromDocument(fs, neverOwns{}, rdocs[i])
		rd := reopened[i].Document()
		sc, scFail := safeScan(t, nil)
		rsc, rscFail := safeScan(sst.NewTableFromDocument(fs, neverOwns{}, rdocs[i]), nil)
		if nonUTF8(d.StartKey) || nonUTF8(d.EndKey) {
			tags = appendOnce(tags, "range-key-not-utf8")
		}
		cks := uint64(0)
		if deep && (i < 2 || i == len(tables)-1) { // raw bytes of at most three tables per case, as a checksum
			f := fs.Open(d.URI)
			raw := make([]byte, d.Size)
			if _, err := f.ReadAt(raw, 0); err != nil && err != io.EOF {
				return nil, fmt.Errorf("reading raw file: %v", err)
			}
			cks = cksum(raw)
		}
		otabs = append(otabs, shared2(coqOptEntries(sc, scFail), coqOptEntries(rsc, rscFail), func(a, b string) string {
			return fmt.Sprintf("mkOT (mkD %s %s %d %d %d %d) (mkD %s %s %d %d %d %d) %s %s %d",
				hx.CoqBytes([]byte(d.StartKey)), hx.CoqBytes([]byte(d.EndKey)), d.EntriesSize, d.Size, d.StartSeqNum, d.EndSeqNum,
				hx.CoqBytes([]byte(rd.StartKey)), hx.CoqBytes([]byte(rd.EndKey)), rd.EntriesSize, rd.Size, rd.StartSeqNum, rd.EndSeqNum, a, b, cks)
		}))
		ranges = append(ranges, rng{[]byte(d.StartKey), []byte(d.EndKey)})
		// keys of this table (for bloom replicas): by range over the input
		var ks [][]byte
		for _, e := range es {
			if bytes.Compare(e.k, []byte(d.StartKey)) >= 0 && bytes.Compare(e.k, []byte(d.EndKey)) <= 0 {
				ks = append(ks, e.k)
			}
		}
		tableKeys = append(tableKeys, ks)
	}
	present := map[string]bool{}
	for _, e := range es {
		present[string(e.k)] = true
		if e.del {
			tags = appendOnce(tags, "has-tombstone")
		}
		if len(e.k) == 0 {
			tags = appendOnce(tags, "has-empty-key")
		}
		if len(e.v) == 0 && !e.del {
			tags = appendOnce(tags, "has-empty-value")
		}
	}

	// false-positive lookups from replicas of the tables' bloom filters
	type tget struct {
		t  int
		k  []byte
		fp bool
	}
	var tgets []tget
	if fp {
		for ti := range tables {
			if ti > 2 {
				break
			}
			bf := bloom.NewFilter(tp.bits, tp.hashes)
			for _, k := range tableKeys[ti] {
				bf.Add(k)
			}
			cnt := map[string]int{}
			try := func(class string, k []byte) {
				if cnt[class] < 5 && !present[string(k)] && bf.MightHave(k) {
					cnt[class]++
					tgets = append(tgets, tget{ti, k, true})
					tags = append(tags, "bloom-fp-"+class)
				}
			}
			for i := 0; i < 40000; i++ {
				try("before-first", []byte(fmt.Sprintf("a%d", i)))
				try("after-last", []byte(fmt.Sprintf("z%d", i)))
				if len(tableKeys[ti]) > 0 {
					base := tableKeys[ti][(i*7919)%len(tableKeys[ti])]
					try("between", append(append([]byte{}, base...), byte('0'+i%10), byte('a'+i%26)))
					try("prefix-of-key", base[:len(base)-1-i%2])
				}
			}
			// some present keys of a big table too (block boundaries)
			for i, k := range tableKeys[ti] {
				if i%16 == 0 && i%(16*37) == 0 || i%16 == 15 && i%(16*41) == 15 || i == len(tableKeys[ti])-1 {
					tgets = append(tgets, tget{ti, k, false})
				}
			}
		}
	}
	// tables to query for a key: the one whose range holds it (or the nearest), its neighbours, the first and the last
	for _, k := range gets {
		own := len(tables) - 1
		for i, rg := range ranges {
			if bytes.Compare(k, rg.end) <= 0 {
				own = i
				break
			}
		}
		idx := map[int]bool{own: true, 0: true, len(tables) - 1: true}
		if own > 0 {
			idx[own-1] = true
		}
		if own+1 < len(tables) {
			idx[own+1] = true
		}
		var order []int
		for i := range idx {
			order = append(order, i)
		}
		sort.Ints(order)
		for _, i := range order {
			tgets = append(tgets, tget{i, k, false})
		}
	}
	var lks []string
	for _, g := range tgets {
		fr := safeGet(tables[g.t], g.k)
		rr := safeGet(reopened[g.t], g.k)
		lks = append(lks, shared2(fr.term, rr.term, func(a, b string) string {
			return fmt.Sprintf("mkL %d %s %s %s %s %s", g.t, hx.CoqBytes(g.k), a, b,
				hx.CoqBool(tables[g.t].RangeContainsKey(g.k)), hx.CoqBool(reopened[g.t].RangeContainsKey(g.k)))
		}))
		class := "absent-between"
		rg := ranges[g.t]
		switch {
		case present[string(g.k)] && bytes.Compare(g.k, rg.start) >= 0 && bytes.Compare(g.k, rg.end) <= 0:
			class = "present"
		case len(tableKeys[g.t]) == 0:
			class = "empty-table"
		case bytes.Compare(g.k, rg.start) < 0:
			class = "before-first"
		case bytes.Compare(g.k, rg.end) > 0:
			class = "after-last"
		}
		tags = append(tags, "get-"+class+"-"+fr.tag)
	}
	// The run as ONE sorted level: {L0 = {}, L1 = the tables of the run}, from the fresh and from the re-opened tables.
	llF := sst.NewLevelListOfTables([][]*sst.Table{{}, tables})
	llR := sst.NewLevelListOfTables([][]*sst.Table{{}, reopened})
	// prefixes that start inside / at / across the table boundaries: prefixes of each boundary's two keys
	{
		seenP := map[string]bool{}
		for _, p := range scans {
			seenP[string(p)] = true
		}
		hits := func(p []byte) int {
			n := 0
			for _, e := range es {
				if bytes.HasPrefix(e.k, p) {
					n++
				}
			}
			return n
		}
		addP := func(p []byte) {
			if seenP[string(p)] || (len(es) > 500 && hits(p) > 300) {
				return
			}
			seenP[string(p)] = true
			scans = append(scans, append([]byte{}, p...))
			tags = appendOnce(tags, "scan-boundary-prefix")
		}
		for i := 0; i+1 < len(ranges); i++ {
			if i >= 3 && i+2 < len(ranges) {
				continue // first three boundaries and the last one
			}
			for _, k := range [][]byte{ranges[i+1].start, ranges[i].end} {
				if len(k) > 0 {
					addP(k[:1])
					addP(k[:(len(k)+1)/2])
					addP(k[:len(k)-1])
					addP(k)
				}
			}
		}
	}
	var scs []string
	for _, p := range scans {
		var all, rall []string
		fail, rfail := false, false
		for i := range tables {
			s, f := safeScan(tables[i], p)
			all = append(all, s...)
			fail = fail || f
			s, f = safeScan(reopened[i], p)
			rall = append(rall, s...)
			rfail = rfail || f
		}
		lf, lfFail := safeLevelScan(llF, p)
		lr, lrFail := safeLevelScan(llR, p)
		scs = append(scs, sharedN([]string{coqOptEntries(all, fail), coqOptEntries(rall, rfail), coqOptEntries(lf, lfFail), coqOptEntries(lr, lrFail)},
			func(a []string) string {
				return fmt.Sprintf("mkS %s %s %s %s %s", hx.CoqBytes(p), a[0], a[1], a[2], a[3])
			}))
		tags = append(tags, "scan-"+nTag("hits", len(all)))
		// regime of C17r3-1: the first table holding the prefix starts inside the prefix group and ends beyond it
		for i, rg := range ranges {
			if len(tableKeys[i]) == 0 || !bytes.HasPrefix(rg.start, p) {
				continue
			}
			covered := i > 0 && (bytes.Compare(ranges[i-1].end, p) >= 0)
			if !covered && !bytes.HasPrefix(rg.end, p) && len(p) > 0 {
				tags = appendOnce(tags, "scan-prefix-group-starts-table-ends-inside")
			}
			break
		}
	}
	// LevelList.Get for every distinct lookup key
	var lgs []string
	{
		seenK := map[string]bool{}
		for _, g := range tgets {
			if seenK[string(g.k)] {
				continue
			}
			seenK[string(g.k)] = true
			fr := safeLevelGet(llF, g.k)
			rr := safeLevelGet(llR, g.k)
			lgs = append(lgs, shared2(fr.term, rr.term, func(a, b string) string {
				return fmt.Sprintf("mkLG %s %s %s", hx.CoqBytes(g.k), a, b)
			}))
			tags = appendOnce(tags, "level-get-"+fr.tag)
		}
	}
	// Single transient read faults: the table is re-opened over a filesystem whose k-th ReadAt (after the footer has
	// been loaded by a healthy lookup) fails once, for k = 0, 1, 2, ... until a run finishes without reaching read k.
	var fgs, fss []string
	{
		ctl := &faultCtl{countdown: -1}
		ffs := &faultFS{FileSystem: fs, ctl: ctl}
		type fkey struct {
			t int
			k []byte
		}
		var fkeys []fkey
		multi := 0
		single := false
		for ti := range tables {
			ks := tableKeys[ti]
			switch {
			case len(ks) > 16 && multi < 2:
				multi++
				seen := map[int]bool{}
				for _, i := range []int{len(ks) - 1, len(ks) / 2, 17, 16, 0} {
					if i < len(ks) && !seen[i] {
						seen[i] = true
						fkeys = append(fkeys, fkey{ti, ks[i]})
					}
				}
			case len(ks) >= 1 && len(ks) <= 16 && !single:
				single = true
				fkeys = append(fkeys, fkey{ti, ks[len(ks)-1]}, fkey{ti, ks[0]})
			}
		}
		nfp := 0
		for _, g := range tgets {
			if g.fp && nfp < 3 {
				nfp++
				fkeys = append(fkeys, fkey{g.t, g.k})
			}
		}
		for _, fk := range fkeys {
			ft := sst.NewTableFromDocument(ffs, neverOwns{}, rdocs[fk.t])
			safeGet(ft, fk.k) // healthy: loads the footer
			nerr := 0
			var outs []string
			for k := 0; k < 2000; k++ {
				ctl.arm(k)
				r := safeGet(ft, fk.k)
				fired := ctl.fired
				ctl.disarm()
				if r.tag == "err" {
					nerr++
				} else {
					if len(outs) == 0 || outs[len(outs)-1] != r.term {
						outs = append(outs, r.term)
					}
					if fired {
						tags = appendOnce(tags, "fault-get-answered-after-fault-"+r.tag)
					}
				}
				if !fired {
					break
				}
			}
			if len(tableKeys[fk.t]) > 16 {
				tags = appendOnce(tags, "fault-get-multi-block")
			}
			fgs = append(fgs, fmt.Sprintf("(mkFG %d %s %d %s)", fk.t, hx.CoqBytes(fk.k), nerr, hx.CoqList(outs, "get_res")))
		}
		if deep {
			for ti := range tables {
				if n := len(tableKeys[ti]); n >= 1 && n <= 8 {
					ft := sst.NewTableFromDocument(ffs, neverOwns{}, rdocs[ti])
					safeScan(ft, nil) // healthy: loads the footer
					var runs []string
					for k := 0; k < 400; k++ {
						ctl.arm(k)
						ents, failed := safeScan(ft, nil)
						fired := ctl.fired
						ctl.disarm()
						runs = append(runs, hx.CoqPair(hx.CoqBool(failed), coqEntries(ents)))
						if !fired {
							break
						}
					}
					fss = append(fss, fmt.Sprintf("(mkFS %d %s %s)", ti, hx.CoqBytes(nil), hx.CoqList(runs, "bool * list entry")))
					tags = appendOnce(tags, "fault-scan")
					break
				}
			}
		}
	}
	var bls []string
	if len(blooms) > 0 {
		bf := bloom.NewFilter(tp.bits, tp.hashes)
		for _, e := range es {
			bf.Add(e.k)
		}
		var buf bytes.Buffer
		bf.Encode(&buf)
		bf2 := bloom.Decode(&buf)
		for _, k := range blooms {
			bls = append(bls, fmt.Sprintf("(mkB %s %s %s)", hx.CoqBytes(k), hx.CoqBool(bf.MightHave(k)), hx.CoqBool(bf2.MightHave(k))))
		}
	}
	var ets []string
	for _, e := range es {
		ets = append(ets, coqEntry(e.k, e.v, e.seq, e.del))
	}
	term := fmt.Sprintf("TabC (mkTP %d %d %d) %s %s %d %s %s %s %s %s %s %s", tp.spacing, tp.bits, tp.hashes, hx.CoqBool(deep), coqEntries(ets), target,
		hx.CoqList(otabs, "otable"), hx.CoqList(lks, "olookup"), hx.CoqList(scs, "oscan"), hx.CoqList(bls, "obloom"), hx.CoqList(lgs, "olget"),
		hx.CoqList(fgs, "ofget"), hx.CoqList(fss, "ofscan"))
	if deep {
		tags = append(tags, "deep")
	}
	return &hx.Result{Term: term, Nontrivial: len(es) >= 2 && len(tgets) >= 1, Tags: dedupTags(tags),
		Observed: map[string]any{"entries": len(es), "target": target, "tables": len(tables), "lookups": len(tgets), "scans": len(scans)}}, nil
}

func execWal(c *hx.Case, ops []op) (*hx.Result, error) {
	s0 := pInt(c, "s0")
	deep := pBool(c, "deep")
	fs := storage.NewMemoryFilesystem()
	w := wal.NewWriter(fs, 0, 1<<30)
	cur := s0
	type saved struct {
		w     *wal.Writer
		n     uint64 // appends so far
		maxTr uint64
		anyTr bool
	}
	var files []saved
	var maxTr uint64
	anyTr := false
	var terms []string
	tags := []string{"wal"}
	rotatedOnce := false
	nontrivial := false
	for _, o := range ops {
		switch o.Op {
		case "put":
			cur++
			w.Put(nz(o.K), nz(o.V), cur)
			terms = append(terms, fmt.Sprintf("WPut %s %s", hx.CoqBytes(o.K), hx.CoqBytes(o.V)))
		case "del":
			cur++
			w.Delete(nz(o.K), cur)
			terms = append(terms, fmt.Sprintf("WDel %s", hx.CoqBytes(o.K)))
		case "cut":
			w.Cut()
			terms = append(terms, "WCut")
		case "trunc":
			w.Truncate(o.S)
			if o.S > maxTr {
				maxTr = o.S
			}
			anyTr = true
			terms = append(terms, fmt.Sprintf("WTrunc %d", o.S))
			if rotatedOnce {
				tags = appendOnce(tags, "truncate-after-rotate")
			}
		case "rotate":
			next := w.Rotate(fs)
			if err := w.Save(); err != nil {
				return nil, err
			}
			files = append(files, saved{w, cur - s0, maxTr, anyTr})
			if cur > s0 {
				nontrivial = true
			}
			w = next
			rotatedOnce = true
			terms = append(terms, "WRotate")
		}
	}
	var fileTerms, reads []string
	for fi, f := range files {
		h := f.w.Handle(0)
		if deep {
			fl := fs.Open(h.URI())
			data, err := io.ReadAll(&storage.Cursor{File: fl})
			if err != nil {
				return nil, err
			}
			fileTerms = append(fileTerms, hx.CoqBytes(data))
		} else {
			fileTerms = append(fileTerms, hx.CoqBytes(nil))
		}
		// start markers: everything in [lo-2, hi+2] when small, else both ends and a few inside
		lo := s0
		if f.anyTr && f.maxTr > lo {
			lo = f.maxTr
		}
		hi := s0 + f.n
		afters := map[uint64]bool{}
		addA := func(a uint64) { afters[a] = true }
		for d := uint64(0); d <= 2; d++ {
			if lo >= d {
				addA(lo - d)
			}
			addA(lo + d)
			if hi >= d {
				addA(hi - d)
			}
			addA(hi + d)
			if s0 >= d {
				addA(s0 - d)
			}
			addA(s0 + d)
		}
		if hi >= lo && hi-lo <= 14 {
			for a := lo; a <= hi; a++ {
				addA(a)
			}
		} else if hi > lo {
			addA(lo + (hi-lo)/2)
			addA(lo + (hi-lo)/3)
		}
		var as []uint64
		for a := range afters {
			as = append(as, a)
		}
		slices.Sort(as)
		for _, a := range as {
			res, tag := safeReadAll(fs, f.w.Handle(a))
			reads = append(reads, fmt.Sprintf("(mkR %d %d %s)", fi, a, res))
			valid := a >= s0 && a <= hi && (!f.anyTr || f.maxTr <= a)
			if valid {
				tags = append(tags, "read-valid-"+tag)
			} else {
				tags = append(tags, "read-outside-"+tag)
			}
		}
	}
	tags = append(tags, "files="+bucket(len(files)))
	term := fmt.Sprintf("WalC %s %d %s %s %s", hx.CoqBool(deep), s0, hx.CoqList(parenAll(terms), "wop"),
		hx.CoqList(fileTerms, "bytes"), hx.CoqList(reads, "wread"))
	return &hx.Result{Term: term, Nontrivial: nontrivial, Tags: dedupTags(tags),
		Observed: map[string]any{"files": len(files), "reads": len(reads), "appends": cur - s0}}, nil
}

func safeReadAll(fs storage.FileSystem, h wal.Handle) (term string, tag string) {
	var es []string
	defer func() {
		if p := recover(); p != nil {
			term, tag = "WPanic", "panic"
		}
	}()
	r := wal.NewReader(fs, h)
	for e, err := range r.All() {
		if err != nil {
			return "(WErr " + coqEntries(es) + ")", "err"
		}
		es = append(es, coqEntry(e.K, e.V, 0, e.Deleted))
	}
	if len(es) == 0 {
		return "(WOk " + coqEntries(es) + ")", "ok-empty"
	}
	return "(WOk " + coqEntries(es) + ")", "ok"
}

// ---------- helpers ----------

func nonUTF8[T ~string | ~[]byte](k T) bool { return !utf8.Valid([]byte(k)) }

// shared2 prints a constructor application with two (usually identical) large arguments; identical arguments are
// bound once by a let so that the term is loaded once.
func shared2(a, b string, mk func(a, b string) string) string {
	if a == b && len(a) > 40 {
		return "(let x := " + a + " in " + mk("x", "x") + ")"
	}
	return "(" + mk(a, b) + ")"
}

// sharedN: like shared2 for several arguments: equal large arguments are bound once.
func sharedN(args []string, mk func([]string) string) string {
	names := make([]string, len(args))
	var lets []string
	bound := map[string]string{}
	for i, a := range args {
		if len(a) <= 40 {
			names[i] = a
			continue
		}
		if n, ok := bound[a]; ok {
			names[i] = n
			continue
		}
		n := fmt.Sprintf("x%d", len(lets))
		bound[a] = n
		lets = append(lets, "let "+n+" := "+a+" in ")
		names[i] = n
	}
	return "(" + strings.Join(lets, "") + mk(names) + ")"
}

// cksum: a 60-bit shift/xor checksum (Corr/Check_sstcodec.v cksum)
func cksum(b []byte) uint64 {
	const m = (uint64(1) << 60) - 1
	a := uint64(7)
	for _, x := range b {
		a = ((a << 7) ^ (a >> 3) ^ (a + uint64(x) + 1)) & m
	}
	return a + 1
}

func nz(b []byte) []byte {
	if b == nil {
		return []byte{}
	}
	return b
}
func parenAll(xs []string) []string {
	out := make([]string, len(xs))
	for i, x := range xs {
		if strings.Contains(x, " ") {
			out[i] = "(" + x + ")"
		} else {
			out[i] = x
		}
	}
	return out
}
func appendOnce(tags []string, t string) []string {
	if slices.Contains(tags, t) {
		return tags
	}
	return append(tags, t)
}
func dedupTags(tags []string) []string {
	seen := map[string]bool{}
	var out []string
	for _, t := range tags {
		if !seen[t] {
			seen[t] = true
			out = append(out, t)
		}
	}
	return out
}
func bucket(n int) string {
	switch {
	case n <= 3:
		return fmt.Sprint(n)
	case n <= 8:
		return "4-8"
	default:
		return ">8"
	}
}
func nTag(name string, n int) string {
	switch {
	case n == 0:
		return name + "=0"
	case n == 1:
		return name + "=1"
	case n < 15:
		return name + "<15"
	case n <= 17:
		return name + "=15..17"
	case n <= 30:
		return name + "<31"
	case n <= 33:
		return name + "=31..33"
	case n <= 70:
		return name + "<=70"
	case n <= 400:
		return name + "<=400"
	default:
		return name + ">400"
	}
}

func main() { hx.Main(eng{}) }
