package main

import (
	"fmt"
	"io"
	"log/slog"
	"os"

	"reduction.dev/reduction/dkv"
	"reduction.dev/reduction/dkv/recovery"
	"reduction.dev/reduction/dkv/storage"
)

func dump(db *dkv.DB, prefix []byte, tag string) {
	var err error
	n := 0
	for e := range db.ScanPrefix(prefix, &err) {
		fmt.Printf("  %s: %x (%d)\n", tag, e.Key(), len(e.Value()))
		n++
	}
	fmt.Println(tag, "entries", n, err)
}

func main() {
	slog.SetDefault(slog.New(slog.NewTextHandler(io.Discard, nil)))
	dir, _ := os.MkdirTemp("/var/tmp/C03", "probe-")
	defer os.RemoveAll(dir)
	fs := storage.NewLocalFilesystem(dir)
	db := dkv.Open(dkv.DBOptions{FileSystem: fs, MemTableSize: 64}, nil)
	db.Put([]byte{0x00, 0xc8, 'a'}, make([]byte, 100)) // rotates: flushed to a table
	db.Put([]byte{0x00, 0xc8, 'b'}, make([]byte, 100))
	db.WaitOnTasks()
	dump(db, []byte{0x00, 0xc8}, "before")
	cp, err := db.Checkpoint(1)()
	fmt.Println("ckpt", err)
	db.WaitOnTasks()
	db2 := dkv.Open(dkv.DBOptions{FileSystem: storage.NewLocalFilesystem(dir), MemTableSize: 64}, []recovery.CheckpointHandle{cp})
	dump(db2, []byte{0x00, 0xc8}, "after restore, prefix 00c8")
	_, err = db2.Get([]byte{0x00, 0xc8, 'a'})
	fmt.Println("Get 00c861 after restore:", err)
	dump(db2, nil, "after restore, empty prefix")
}
