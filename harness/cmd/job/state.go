package main

// mode state: a REAL operator.Operator (real DKV) with a counting handler is redeployed in place - with the checkpoint
// the request names, or with none - after keyed events were applied. After HandleDeploy its keyed state must be exactly
// the state of that checkpoint (empty if none): the count the handler is given for a key tells.

import (
	"context"
	"encoding/binary"
	"encoding/json"
	"fmt"
	"os"
	"sync"
	"time"

	"reduction.dev/reduction-protocol/handlerpb"
	"reduction.dev/reduction/batching"
	"reduction.dev/reduction/connectors/embedded"
	"reduction.dev/reduction/proto"
	"reduction.dev/reduction/proto/jobpb"
	"reduction.dev/reduction/proto/snapshotpb"
	"reduction.dev/reduction/proto/workerpb"
	"reduction.dev/reduction/workers/operator"
	"verifharness/hx"
)

type stateOp struct {
	K    string `json:"k"`              // ev | ckpt | redeploy
	Key  int    `json:"key,omitempty"`  // ev: key number
	From int    `json:"from,omitempty"` // redeploy: 0 = no checkpoint, j >= 1 = the j-th newest completed checkpoint (1 = latest)
}

// countingHandler keeps per key one entry ("c"/"n") = number of events applied; it records the count it is given.
type countingHandler struct {
	mu   sync.Mutex
	seen []uint64 // per processed keyed event: the count found in the given state
}

func (h *countingHandler) KeyEventBatch(context.Context, [][]byte) ([][]*handlerpb.KeyedEvent, error) {
	return nil, nil
}
func (h *countingHandler) ProcessEventBatch(ctx context.Context, req *handlerpb.ProcessEventBatchRequest) (*handlerpb.ProcessEventBatchResponse, error) {
	cur := map[string]uint64{}
	for _, ks := range req.KeyStates {
		for _, ns := range ks.StateEntryNamespaces {
			if ns.Namespace != "c" {
				continue
			}
			for _, e := range ns.Entries {
				if string(e.Key) == "n" && len(e.Value) == 8 {
					cur[string(ks.Key)] = binary.BigEndian.Uint64(e.Value)
				}
			}
		}
	}
	resp := &handlerpb.ProcessEventBatchResponse{}
	for _, ev := range req.Events {
		ke, ok := ev.Event.(*handlerpb.Event_KeyedEvent)
		if !ok {
			continue
		}
		k := string(ke.KeyedEvent.Key)
		h.mu.Lock()
		h.seen = append(h.seen, cur[k])
		h.mu.Unlock()
		cur[k]++
		v := make([]byte, 8)
		binary.BigEndian.PutUint64(v, cur[k])
		resp.KeyResults = append(resp.KeyResults, &handlerpb.KeyResult{Key: ke.KeyedEvent.Key,
			StateMutationNamespaces: []*handlerpb.StateMutationNamespace{{Namespace: "c",
				Mutations: []*handlerpb.StateMutation{{Mutation: &handlerpb.StateMutation_Put{Put: &handlerpb.PutMutation{Key: []byte("n"), Value: v}}}}}}})
	}
	return resp, nil
}

type stateJob struct {
	proto.UnimplementedJob
	mu   sync.Mutex
	acks []*snapshotpb.OperatorCheckpoint
}

func (j *stateJob) RegisterOperator(context.Context, *jobpb.NodeIdentity) error   { return nil }
func (j *stateJob) DeregisterOperator(context.Context, *jobpb.NodeIdentity) error { return nil }
func (j *stateJob) OperatorCheckpointComplete(ctx context.Context, req *snapshotpb.OperatorCheckpoint) error {
	j.mu.Lock()
	j.acks = append(j.acks, req)
	j.mu.Unlock()
	return nil
}

func genState(tier string, r *hx.Rand) []*hx.Case {
	n := 40
	if tier == "thorough" {
		n = 300
	}
	var cs []*hx.Case
	for i := 0; i < n; i++ {
		var ops []stateOp
		evs := func(lo, hi int) {
			for k := r.Range(lo, hi); k > 0; k-- {
				ops = append(ops, stateOp{K: "ev", Key: r.Intn(3)})
			}
		}
		ncp := 0
		evs(1, 4)
		for round := r.Range(1, 4); round > 0; round-- {
			switch r.Intn(5) {
			case 0, 1: // redeploy with NO checkpoint to restore after events were applied (failure before the first checkpoint completes)
				if ncp == 0 || r.Chance(1, 3) {
					ops = append(ops, stateOp{K: "redeploy", From: 0})
				} else {
					ops = append(ops, stateOp{K: "redeploy", From: 1})
				}
			case 2: // checkpoint, later events, redeploy from that checkpoint
				ops = append(ops, stateOp{K: "ckpt"})
				ncp++
				evs(1, 3)
				ops = append(ops, stateOp{K: "redeploy", From: 1})
			case 3:
				ops = append(ops, stateOp{K: "ckpt"})
				ncp++
			case 4: // an older checkpoint
				if ncp >= 2 {
					ops = append(ops, stateOp{K: "redeploy", From: 2})
				} else {
					ops = append(ops, stateOp{K: "ckpt"})
					ncp++
				}
			}
			evs(1, 4)
		}
		c := &hx.Case{Name: fmt.Sprintf("state-%d", i), Params: map[string]any{"mode": "state"}}
		for _, o := range ops {
			c.Ops = append(c.Ops, hx.Op(o))
		}
		cs = append(cs, c)
	}
	return cs
}

func executeState(c *hx.Case) (*hx.Result, error) {
	caseWedged = false
	dir, err := os.MkdirTemp("", "verif-c15-state-")
	if err != nil {
		return nil, err
	}
	defer os.RemoveAll(dir)
	job := &stateJob{}
	handler := &countingHandler{}
	opr := operator.NewOperator(operator.NewOperatorParams{ID: "op0", Job: job, UserHandler: handler,
		EventBatching: batching.EventBatcherParams{MaxSize: 1, MaxDelay: time.Hour}})
	ctx, cancel := context.WithCancel(context.Background())
	srIDs := []string{"r0", "r1"}
	deploy := func(ck []*snapshotpb.OperatorCheckpoint) error {
		return opr.HandleDeploy(ctx, &workerpb.DeployOperatorRequest{
			Operators: []*jobpb.NodeIdentity{{Id: "op0", Host: "h"}}, SourceRunnerIds: srIDs, KeyGroupCount: keyGroups,
			StorageLocation: dir, Checkpoints: ck,
		}, &embedded.RecordingSink{})
	}
	if err := deploy(nil); err != nil {
		cancel()
		return nil, err
	}
	stopped := make(chan struct{})
	go func() { opr.Start(ctx); close(stopped) }()
	defer func() { // runs BEFORE the deferred RemoveAll: the operator's Start has returned (database closed) before its directory goes
		cancel()
		select {
		case <-stopped:
		case <-time.After(waitFor):
		}
	}()
	// every request returns (events are their own batch, barriers come from both runners in turn: nothing parks);
	// the count the handler saw / the ack are recorded synchronously before HandleEvent returns. waitFor = wedged verdict.
	call := func(sender string, ev *workerpb.Event) error {
		ret := make(chan error, 1)
		go func() { ret <- opr.HandleEvent(ctx, sender, ev) }()
		select {
		case err := <-ret:
			return err
		case <-time.After(bound()):
			timedOut()
			return fmt.Errorf("no answer")
		}
	}
	var terms []string
	var observed []any
	nextID := uint64(1)
	redeploys, afterRedeploy, fromNone, fromCk := 0, 0, 0, 0
	for _, raw := range c.Ops {
		var o stateOp
		if err := json.Unmarshal(raw, &o); err != nil {
			return nil, err
		}
		switch o.K {
		case "ev":
			handler.mu.Lock()
			before := len(handler.seen)
			handler.mu.Unlock()
			err := call("r0", &workerpb.Event{Event: &workerpb.Event_KeyedEvent{KeyedEvent: &handlerpb.KeyedEvent{Key: []byte(fmt.Sprintf("k%d", o.Key))}}})
			obs := uint64(999999)
			handler.mu.Lock()
			if err == nil && len(handler.seen) == before+1 {
				obs = handler.seen[before]
			}
			handler.mu.Unlock()
			if redeploys > 0 {
				afterRedeploy++
			}
			terms = append(terms, fmt.Sprintf("(SEv %d, %d)", o.Key, obs))
			observed = append(observed, map[string]any{"op": "ev", "key": o.Key, "count_given": obs})
		case "ckpt":
			job.mu.Lock()
			before := len(job.acks)
			job.mu.Unlock()
			for _, sr := range srIDs {
				call(sr, &workerpb.Event{Event: &workerpb.Event_CheckpointBarrier{CheckpointBarrier: &workerpb.CheckpointBarrier{CheckpointId: nextID}}})
			}
			obs := uint64(0)
			job.mu.Lock()
			if len(job.acks) == before+1 && job.acks[before].CheckpointId == nextID {
				obs = nextID
			}
			job.mu.Unlock()
			nextID++
			terms = append(terms, fmt.Sprintf("(SCkpt, %d)", obs))
			observed = append(observed, map[string]any{"op": "ckpt", "acked": obs})
		case "redeploy":
			var ck []*snapshotpb.OperatorCheckpoint
			from := uint64(0)
			job.mu.Lock()
			if o.From >= 1 && o.From <= len(job.acks) {
				a := job.acks[len(job.acks)-o.From]
				ck = []*snapshotpb.OperatorCheckpoint{a}
				from = a.CheckpointId
			}
			job.mu.Unlock()
			obs := uint64(0)
			if err := deploy(ck); err != nil {
				obs = 1
			}
			redeploys++
			if from == 0 {
				fromNone++
			} else {
				fromCk++
			}
			terms = append(terms, fmt.Sprintf("(SRedeploy %d, %d)", from, obs))
			observed = append(observed, map[string]any{"op": "redeploy", "from": from, "err": obs})
		}
	}
	tags := []string{}
	if fromNone > 0 {
		tags = append(tags, "redeploy-with-no-checkpoint-after-events")
	}
	if fromCk > 0 {
		tags = append(tags, "redeploy-from-checkpoint-after-later-events")
	}
	return &hx.Result{Term: "(StateCase " + hx.CoqList(terms, "sop * N") + ")", Nontrivial: redeploys > 0 && afterRedeploy > 0, Tags: tags, Observed: observed}, nil
}
