// engine job: the REAL jobs.Job (registry, liveness, assembly, snapshot store) driven by scripted fake
// operator / source-runner nodes under a manual clock whose tickers honour Stop (stopClock).
//
//	mode c15  : membership / fault / checkpoint histories against the job state machine (fake nodes)
//	mode slot : a REAL operator.Operator that survives a failed assembly with a half-aligned checkpoint
//	            and is deployed again (the operator's checkpoint slot)
//
// Determinism: the job runs its own goroutines. The harness never sleeps for a result: every fake Deploy
// blocks at a gate the harness opens with the `fin` op, every wait is on an explicit signal (call received,
// task queue drained through jobs.VerifSync, file written) with a generous time-out that means "did not happen".
package main

import (
	"bytes"
	"context"
	"encoding/json"
	"fmt"
	"io"
	"iter"
	"log/slog"
	"os"
	"sort"
	"strings"
	"sync"
	"sync/atomic"
	"time"

	gproto "google.golang.org/protobuf/proto"
	"reduction.dev/reduction-protocol/jobconfigpb"
	"reduction.dev/reduction/clocks"
	"reduction.dev/reduction/config"
	"reduction.dev/reduction/connectors"
	"reduction.dev/reduction/jobs"
	"reduction.dev/reduction/partitioning"
	"reduction.dev/reduction/proto"
	"reduction.dev/reduction/proto/jobpb"
	"reduction.dev/reduction/proto/snapshotpb"
	"reduction.dev/reduction/proto/workerpb"
	"reduction.dev/reduction/storage/locations"
	"verifharness/hx"
)

// TIMING. Every wait of this engine is on an event that MUST happen on a tree where the property holds (a Deploy call
// arriving, the task queue reaching a status, a snapshot being published, a request returning or parking at a hook); the
// loops below poll or block until the event itself, and `waitFor` is only the verdict "this system is wedged": 60 s, far
// above anything machine load can cause and below hx's 180 s no-progress detector. No observation is an absence
// established by waiting: absences are read after an event ordered behind the possible one (see the comments at each
// site). Once the bound HAS expired (the tree is broken: the run already carries a violation with a concrete input) later
// waits are cut to 300 ms so that a broken tree is reported in minutes; on a healthy tree that never happens.
var waitFor = 60 * time.Second

func timedOut() {
	if waitFor > 300*time.Millisecond {
		waitFor = 300 * time.Millisecond
	}
	caseWedged = true
}

// caseWedged: a wait of the CURRENT case has expired. The case is a violation already and whatever it observes from here
// on does not matter, so its remaining waits are not worth more than a millisecond (reset by newHarness).
var caseWedged bool

func bound() time.Duration {
	if caseWedged {
		return time.Millisecond
	}
	return waitFor
}

// cleanupWait bounds waits that happen after the last observation of a case (pacing only: leaving early leaves
// goroutines that touch nothing but this case's own in-memory objects)
const cleanupWait = 2 * time.Second

const keyGroups = 8

type eng struct{}

func (eng) Name() string { return "job" }
func (eng) CoqRequire(mode string) string {
	return "From Coq Require Import List NArith Bool.\nFrom RV Require Import Model.JobSM Corr.Check_job.\nImport ListNotations."
}
func (eng) CoqCaseType(mode string) string { return "Check_job.case" }
func (eng) CoqRun(mode string) string      { return "Check_job.run" }
func (eng) Rule(mode string) string {
	if mode == "state" {
		return "a real operator (real DKV, counting handler, every event its own batch) applies keyed events over 3 keys, takes complete checkpoints (barriers of both runners) and is redeployed in place with NO checkpoint to restore after events were applied, with the latest checkpoint after later events, or with an older one; the count the handler is given for every event is compared with the state of the checkpoint named by the last deploy plus the events since; non-trivial: at least one event after a redeployment"
	}
	if mode == "slot" {
		return "a real operator with 1..3 upstream source runners receives barriers of checkpoint a from a strict subset (possibly empty) of its runners, is deployed again (surviving worker), optionally receives stale barriers of a from a strict subset after the redeploy (known finding), then receives all barriers of checkpoint b; a retention update is sent before the first deploy; parking is observed at the operator.align.park hook, not by time-out; non-trivial: at least one barrier was registered before the second deploy"
	}
	return "histories over WorkerCount 1..3 with 0..2 standby nodes per kind: registrations in random order, heartbeats, graceful deregistration and kills (heartbeat expiry by advancing the frozen clock) of assembly members before / during deployment (Deploy gated) and during an in-flight checkpoint (some acks delivered) - periodic, a requested savepoint (HandleCreateSavepoint on an idle store) or a periodic checkpoint upgraded to a savepoint (request folding into it) -, failed deployments, checkpoint rounds with acks in random order, late acks of members of the lost assembly while the new assembly's Deploy is still gated (single and all of them), stale / foreign / duplicate acks; slow storage (the file write of a fully acknowledged checkpoint N is held while N+1 is started, acknowledged and published, then released, then a member is lost and the job redeploys); ticks at any time through a clock whose tickers honour Stop (only a live checkpoint ticker of the job fires). Non-trivial: at least one deployment completed and at least one fault or checkpoint happened; distinct by hash of the op list."
}

// ---------------------------------------------------------------- ops (JSON, self-contained)

type jop struct {
	K   string `json:"k"`             // reg | dereg | deregm | killm | hb | adv | fin | tick | sp | holdw | relw | ackm | ackn | ackall | ackold | ackallold
	Who string `json:"who,omitempty"` // "op" | "sr"
	N   int    `json:"n,omitempty"`   // node number / member position / milliseconds / permutation seed
	D   int    `json:"d,omitempty"`   // ack: checkpoint id = last started id + d
	OK  bool   `json:"ok,omitempty"`  // fin
}

// ---------------------------------------------------------------- in-memory storage location

type memLoc struct {
	mu      sync.Mutex
	files   map[string][]byte
	written chan string
	// slow storage: when holdNext is set the next job-snapshot write blocks until released (one at a time)
	holdNext bool
	held     chan struct{} // non-nil while a write is held; closed to release it
	heldSig  chan struct{} // signalled when a write starts being held
	snapWrites int         // job-snapshot writes that ENTERED Write (each is followed by exactly one "store wrote" record)
}

func newMemLoc() *memLoc {
	return &memLoc{files: map[string][]byte{}, written: make(chan string, 1024), heldSig: make(chan struct{}, 16)}
}

func (m *memLoc) isHeld() bool {
	m.mu.Lock()
	defer m.mu.Unlock()
	return m.held != nil
}

// armHold arms the gate unless a write is held already; reports whether it is armed
func (m *memLoc) armHold() {
	m.mu.Lock()
	if m.held == nil {
		m.holdNext = true
	}
	m.mu.Unlock()
}

// releaseHeld lets the held write return; false when none is held
func (m *memLoc) releaseHeld() bool {
	m.mu.Lock()
	ch := m.held
	m.held = nil
	m.mu.Unlock()
	if ch == nil {
		return false
	}
	close(ch)
	return true
}
func (m *memLoc) Write(path string, data io.Reader) (string, error) {
	b, err := io.ReadAll(data)
	if err != nil {
		return "", err
	}
	if strings.HasSuffix(path, ".snapshot") {
		m.mu.Lock()
		m.snapWrites++
		var gate chan struct{}
		if m.holdNext && m.held == nil {
			m.holdNext = false
			gate = make(chan struct{})
			m.held = gate
		}
		m.mu.Unlock()
		if gate != nil {
			select {
			case m.heldSig <- struct{}{}:
			default:
			}
			<-gate
		}
	}
	m.mu.Lock()
	m.files[path] = b
	m.mu.Unlock()
	select {
	case m.written <- path:
	default:
	}
	return path, nil
}
func (m *memLoc) Read(path string) ([]byte, error) {
	m.mu.Lock()
	defer m.mu.Unlock()
	b, ok := m.files[path]
	if !ok {
		return nil, locations.ErrNotFound
	}
	return b, nil
}
func (m *memLoc) List() iter.Seq2[string, error] {
	m.mu.Lock()
	var names []string
	for k := range m.files {
		names = append(names, k)
	}
	m.mu.Unlock()
	sort.Strings(names)
	return func(yield func(string, error) bool) {
		for _, n := range names {
			if !yield(n, nil) {
				return
			}
		}
	}
}
func (m *memLoc) URI(path string) (string, error) { return path, nil }
func (m *memLoc) Copy(src, dst string) error {
	b, err := m.Read(src)
	if err != nil {
		return err
	}
	_, err = m.Write(dst, bytes.NewReader(b))
	return err
}
func (m *memLoc) Remove(paths ...string) error {
	m.mu.Lock()
	defer m.mu.Unlock()
	for _, p := range paths {
		delete(m.files, p)
	}
	return nil
}

// snapshotIDs returns the ids of the job snapshot files present (decoded from their content).
func (m *memLoc) snapshot(id uint64) *snapshotpb.JobCheckpoint {
	m.mu.Lock()
	defer m.mu.Unlock()
	for name, b := range m.files {
		if !strings.HasSuffix(name, ".snapshot") {
			continue
		}
		var jc snapshotpb.JobCheckpoint
		if gproto.Unmarshal(b, &jc) == nil && jc.Id == id {
			return &jc
		}
	}
	return nil
}

// ---------------------------------------------------------------- a manual clock whose tickers honour Stop

// stopClock is a FrozenClock (Now / Advance) whose Every returns tickers with the production semantics: a stopped
// ticker never fires again. Tick(label) fires every ticker of the label that is alive - so "the interval elapses" acts
// through the job's real ticker lifecycle (created in start, stopped on pause, created again by the next start).
type hTicker struct {
	label   string
	fn      func(*clocks.EveryContext)
	stopped bool
}

type stopClock struct {
	*clocks.FrozenClock
	mu      sync.Mutex
	tickers []*hTicker
}

func (c *stopClock) Every(d time.Duration, fn func(*clocks.EveryContext), label string) *clocks.Ticker {
	t := &hTicker{label: label, fn: fn}
	c.mu.Lock()
	c.tickers = append(c.tickers, t)
	c.mu.Unlock()
	return clocks.VerifNewTicker(func() {
		c.mu.Lock()
		t.stopped = true
		c.mu.Unlock()
	}, func() { fn(&clocks.EveryContext{}) })
}

// Tick fires the live tickers of the label (in creation order) and returns how many fired.
func (c *stopClock) Tick(label string) int {
	c.mu.Lock()
	var live []*hTicker
	for _, t := range c.tickers {
		if t.label == label && !t.stopped {
			live = append(live, t)
		}
	}
	c.mu.Unlock()
	for _, t := range live {
		t.fn(&clocks.EveryContext{})
	}
	return len(live)
}

var _ clocks.Clock = (*stopClock)(nil)

// ---------------------------------------------------------------- fake source + nodes

type fakeSplitter struct {
	h *harness
	connectors.UnimplementedSourceSplitter
}

func (s *fakeSplitter) IsSourceSplitter() {}
func (s *fakeSplitter) Start(ck *snapshotpb.SourceCheckpoint) error {
	s.h.mu.Lock()
	s.h.splitStarts = append(s.h.splitStarts, ck.GetCheckpointId()+1)
	s.h.mu.Unlock()
	return nil
}
func (s *fakeSplitter) Close() error                                  { return nil }
func (s *fakeSplitter) NotifySplitsFinished(string, []string)         {}
func (s *fakeSplitter) Checkpoint() []byte {
	s.h.mu.Lock()
	s.h.splitCkpts++
	s.h.mu.Unlock()
	return []byte{7}
}

type fakeSource struct{ h *harness }

func (f *fakeSource) Validate() error { return nil }
func (f *fakeSource) NewSourceSplitter(ids []string, hooks connectors.SourceSplitterHooks, errChan chan<- error) connectors.SourceSplitter {
	return &fakeSplitter{h: f.h}
}
func (f *fakeSource) NewSourceReader(connectors.SourceReaderHooks) connectors.SourceReader { return nil }
func (f *fakeSource) ProtoMessage() *jobconfigpb.Source                                   { return &jobconfigpb.Source{} }

type arrival struct {
	id    string
	isOp  bool
	opReq *workerpb.DeployOperatorRequest
	srReq *workerpb.DeploySourceRunnerRequest
}

type gate struct {
	ch   chan struct{}
	fail map[string]bool
}

type fakeOp struct {
	h  *harness
	id string
}

func (f *fakeOp) ID() string   { return f.id }
func (f *fakeOp) Host() string { return "h-" + f.id }
func (f *fakeOp) HandleEventBatch(context.Context, []*workerpb.Event) error { return nil }
func (f *fakeOp) NeedsTable(context.Context, string) (bool, error)          { return false, nil }
func (f *fakeOp) UpdateRetainedCheckpoints(context.Context, []uint64) error { return nil }
func (f *fakeOp) Deploy(ctx context.Context, req *workerpb.DeployOperatorRequest) error {
	return f.h.arrive(arrival{id: f.id, isOp: true, opReq: req})
}

type fakeSR struct {
	h  *harness
	id string
}

func (f *fakeSR) ID() string   { return f.id }
func (f *fakeSR) Host() string { return "h-" + f.id }
func (f *fakeSR) AssignSplits(context.Context, []*workerpb.SourceSplit) error { return nil }
func (f *fakeSR) Deploy(ctx context.Context, req *workerpb.DeploySourceRunnerRequest) error {
	return f.h.arrive(arrival{id: f.id, srReq: req})
}
func (f *fakeSR) StartCheckpoint(ctx context.Context, id uint64) error {
	f.h.mu.Lock()
	f.h.ckStarts = append(f.h.ckStarts, ckStart{f.id, id})
	f.h.mu.Unlock()
	return nil
}

type ckStart struct {
	sr string
	id uint64
}

// ---------------------------------------------------------------- harness

type harness struct {
	wc    int
	job   *jobs.Job
	clock *stopClock
	loc   *memLoc

	mu          sync.Mutex
	arrivals    []arrival
	arrived     chan struct{}
	gate        *gate
	ckStarts    []ckStart
	splitStarts []uint64
	splitCkpts  int

	pendingDeploy bool
	memOps        []string // members of the last deployment seen (pending or running)
	memSrs        []string
	prevOps       []string // members of the assembly before that one
	prevSrs       []string
	heldCk        uint64 // id of the checkpoint whose snapshot write is held (0 none)
	logBase       int64  // storeWroteCount when this case began
	lastCk        uint64          // last checkpoint id started
	known         map[string]bool // nodes the harness registered and neither deregistered nor killed
}

func (h *harness) arrive(a arrival) error {
	h.mu.Lock()
	h.arrivals = append(h.arrivals, a)
	g := h.gate
	h.mu.Unlock()
	select {
	case h.arrived <- struct{}{}:
	default:
	}
	<-g.ch
	if g.fail[a.id] {
		return fmt.Errorf("scripted deploy failure of %s", a.id)
	}
	return nil
}

func (h *harness) release(fail map[string]bool) {
	h.mu.Lock()
	g := h.gate
	h.gate = &gate{ch: make(chan struct{})}
	h.mu.Unlock()
	g.fail = fail
	close(g.ch)
}

func nodeNum(id string) uint64 {
	var n uint64
	fmt.Sscanf(id[1:], "%d", &n)
	return n
}

type depRec struct {
	Ops   []uint64 `json:"ops"`
	Srs   []uint64 `json:"srs"`
	Ck    []uint64 `json:"ck"` // per operator call (sorted by operator id): the checkpoint id it is told to restore (0 none, 999999 mixed)
	Peers bool     `json:"peers"`
}

// waitDeploy collects the Deploy calls of one `start` (2*wc expected). It blocks until all of them have ARRIVED (every fake
// Deploy signals its arrival and then parks at the gate); the deadline is the wedged-system verdict only. Fewer calls than
// expected can only be "observed" by that verdict (a broken tree), never on a loaded healthy one.
func (h *harness) waitDeploy() depRec {
	deadline := time.After(bound())
	for {
		h.mu.Lock()
		n := len(h.arrivals)
		h.mu.Unlock()
		if n >= 2*h.wc {
			break
		}
		select {
		case <-h.arrived:
		case <-deadline:
			timedOut()
			goto done
		}
	}
done:
	// a surplus call (more than 2*wc) would arrive about now; give the scheduler one chance to show it
	h.mu.Lock()
	arr := h.arrivals
	h.arrivals = nil
	h.mu.Unlock()
	sort.SliceStable(arr, func(i, j int) bool { return arr[i].id < arr[j].id })
	var rec depRec
	var opIDs, srIDs []string
	for _, a := range arr {
		if a.isOp {
			opIDs = append(opIDs, a.id)
			rec.Ops = append(rec.Ops, nodeNum(a.id))
		} else {
			srIDs = append(srIDs, a.id)
			rec.Srs = append(rec.Srs, nodeNum(a.id))
		}
	}
	rec.Peers = true
	for _, a := range arr {
		if a.isOp {
			var id uint64
			for i, c := range a.opReq.Checkpoints {
				if i == 0 {
					id = c.CheckpointId
				} else if id != c.CheckpointId {
					id = 999999
				}
			}
			rec.Ck = append(rec.Ck, id)
			var peers []string
			for _, p := range a.opReq.Operators {
				peers = append(peers, p.Id)
			}
			if strings.Join(peers, ",") != strings.Join(opIDs, ",") || strings.Join(a.opReq.SourceRunnerIds, ",") != strings.Join(srIDs, ",") || int(a.opReq.KeyGroupCount) != keyGroups {
				rec.Peers = false
			}
		} else {
			var peers []string
			for _, p := range a.srReq.Operators {
				peers = append(peers, p.Id)
			}
			if strings.Join(peers, ",") != strings.Join(opIDs, ",") || int(a.srReq.KeyGroupCount) != keyGroups {
				rec.Peers = false
			}
		}
	}
	if no, nr := dedup(opIDs), dedup(srIDs); strings.Join(no, ",") != strings.Join(h.memOps, ",") || strings.Join(nr, ",") != strings.Join(h.memSrs, ",") {
		if len(h.memOps)+len(h.memSrs) > 0 {
			h.prevOps, h.prevSrs = h.memOps, h.memSrs // the assembly that was lost
		}
		h.memOps, h.memSrs = no, nr
	}
	return rec
}

func dedup(xs []string) []string {
	var out []string
	for i, x := range xs {
		if i == 0 || x != xs[i-1] {
			out = append(out, x)
		}
	}
	return out
}

func statusN(s string) uint64 {
	switch s {
	case "Init":
		return 0
	case "Paused":
		return 1
	case "Starting":
		return 2
	case "Running":
		return 3
	}
	return 9
}

// settle drains the task queue and, when a new `start` is in flight, waits for its Deploy calls.
func (h *harness) settle() (string, []depRec) {
	var deps []depRec
	h.job.VerifSync()
	st := h.job.VerifStatus()
	if st == "Starting" && !h.pendingDeploy {
		deps = append(deps, h.waitDeploy())
		h.pendingDeploy = true
	}
	return st, deps
}

type obs struct {
	Status    uint64   `json:"status"`
	Deps      []depRec `json:"deps,omitempty"`
	Started   []uint64 `json:"started,omitempty"`
	Cid       uint64   `json:"cid,omitempty"`
	Res       uint64   `json:"res,omitempty"`
	Published uint64   `json:"published,omitempty"`
	Split     uint64   `json:"split,omitempty"`
	Fired     int      `json:"fired,omitempty"` // tick: number of live checkpoint tickers that fired (not compared; diagnostics)
}

type step struct {
	op string // Gallina op
	o  obs
}

func newHarness(wc int, deadlineMs int) (*harness, error) {
	slog.SetDefault(slog.New(sigHandler{}))
	caseWedged = false
	h := &harness{wc: wc, logBase: storeWroteCount.Load(), clock: &stopClock{FrozenClock: clocks.NewFrozenClock()}, loc: newMemLoc(), arrived: make(chan struct{}, 4096),
		gate: &gate{ch: make(chan struct{})}, known: map[string]bool{}}
	cfg := &config.Config{WorkerCount: wc, KeyGroupCount: keyGroups, WorkingStorageLocation: "mem://w",
		Sources: []connectors.SourceConfig{&fakeSource{h: h}}}
	job, err := jobs.New(&jobs.NewParams{
		JobConfig: cfg, Clock: h.clock, HeartbeatDeadline: time.Duration(deadlineMs) * time.Millisecond, Store: h.loc,
		OperatorFactory:     func(senderID string, node *jobpb.NodeIdentity) proto.Operator { return &fakeOp{h: h, id: node.Id} },
		SourceRunnerFactory: func(node *jobpb.NodeIdentity) proto.SourceRunner { return &fakeSR{h: h, id: node.Id} },
		ErrChan:             make(chan error, 64),
	})
	if err != nil {
		return nil, err
	}
	h.job = job
	return h, nil
}

func nid(who string, n int) string {
	if who == "op" {
		return fmt.Sprintf("o%02d", n)
	}
	return fmt.Sprintf("s%02d", n)
}

func (h *harness) member(who string, pos int) (string, bool) {
	m := h.memSrs
	if who == "op" {
		m = h.memOps
	}
	if len(m) == 0 {
		return "", false
	}
	return m[pos%len(m)], true
}

func (h *harness) posOf(id string) int {
	for i, x := range h.memOps {
		if x == id {
			return i
		}
	}
	for i, x := range h.prevOps {
		if x == id {
			return i
		}
	}
	return 0
}

func (h *harness) oldMember(who string, pos int) (string, bool) {
	m := h.prevSrs
	if who == "op" {
		m = h.prevOps
	}
	if len(m) == 0 {
		return "", false
	}
	return m[pos%len(m)], true
}

// prim executes one primitive op and returns its Gallina term and observation.
func (h *harness) reg(who string, id string) step {
	node := &jobpb.NodeIdentity{Id: id, Host: "h-" + id}
	if who == "op" {
		h.job.HandleRegisterOperator(node)
	} else {
		h.job.HandleRegisterSourceRunner(node)
	}
	st, deps := h.settle()
	c := "ORegSr"
	if who == "op" {
		c = "ORegOp"
	}
	return step{fmt.Sprintf("%s %d", c, nodeNum(id)), obs{Status: statusN(st), Deps: deps}}
}

func (h *harness) dereg(who string, id string) step {
	node := &jobpb.NodeIdentity{Id: id, Host: "h-" + id}
	if who == "op" {
		h.job.HandleDeregisterOperator(node)
	} else {
		h.job.HandleDeregisterSourceRunner(node)
	}
	st, deps := h.settle()
	c := "ODeregSr"
	if who == "op" {
		c = "ODeregOp"
	}
	return step{fmt.Sprintf("%s %d", c, nodeNum(id)), obs{Status: statusN(st), Deps: deps}}
}

func (h *harness) fin(ok bool, who int) step {
	o := obs{}
	if h.pendingDeploy {
		fail := map[string]bool{}
		if !ok {
			all := append(append([]string{}, h.memOps...), h.memSrs...)
			if len(all) > 0 {
				fail[all[who%len(all)]] = true
			}
		}
		h.mu.Lock()
		before := len(h.splitStarts)
		h.mu.Unlock()
		h.release(fail)
		h.pendingDeploy = false
		// poll until the outcome itself: the queued "running" / "failed" task has run (status left Starting), or the Deploy
		// calls of a new start have begun to arrive; no observation is made before that (deadline = wedged verdict only).
		// split (did the splitter start, from which checkpoint) is read afterwards: SourceSplitter.Start is called by the
		// start goroutine BEFORE it queues the "running" task, so it is ordered before the status change.
		deadline := time.Now().Add(bound())
		for {
			h.job.VerifSync()
			st := h.job.VerifStatus()
			h.mu.Lock()
			na := len(h.arrivals)
			h.mu.Unlock()
			if time.Now().After(deadline) {
				timedOut()
				break
			}
			if st != "Starting" || na > 0 {
				break
			}
			time.Sleep(20 * time.Microsecond) // pacing
		}
		h.mu.Lock()
		if len(h.splitStarts) > before {
			o.Split = h.splitStarts[len(h.splitStarts)-1]
		}
		h.mu.Unlock()
		// the start has ended (its errgroup waited for EVERY Deploy call it issued): calls of it that arrived after
		// waitDeploy had its 2*wc (a broken tree deploying to more nodes) must not be taken for the next deployment
		if h.job.VerifStatus() != "Starting" {
			h.mu.Lock()
			h.arrivals = nil
			h.mu.Unlock()
		}
	}
	st, deps := h.settle()
	o.Status, o.Deps = statusN(st), deps
	return step{"OFin " + hx.CoqBool(ok), o}
}

func (h *harness) tick() step {
	o := obs{}
	h.job.VerifSync()
	{ // the interval elapses: whatever checkpoint ticker of the job is alive fires (none while it is not Running)
		h.mu.Lock()
		h.ckStarts = nil
		h.mu.Unlock()
		o.Fired = h.clock.Tick("checkpointing")
		h.mu.Lock()
		cs := h.ckStarts
		h.ckStarts = nil
		h.mu.Unlock()
		sort.Slice(cs, func(i, j int) bool { return cs[i].sr < cs[j].sr })
		for i, c := range cs {
			o.Started = append(o.Started, nodeNum(c.sr))
			if i == 0 {
				o.Cid = c.id
			} else if c.id != o.Cid {
				o.Cid = 999999
			}
		}
		if o.Cid != 0 && o.Cid != 999999 {
			h.lastCk = o.Cid
		}
	}
	st, deps := h.settle()
	o.Status, o.Deps = statusN(st), deps
	return step{"OTick", o}
}

// savepoint: Job.HandleCreateSavepoint (a user request): starts a checkpoint flagged as a savepoint, or folds into the
// periodic checkpoint in flight
func (h *harness) savepoint() step {
	o := obs{}
	h.job.VerifSync()
	h.mu.Lock()
	h.ckStarts = nil
	h.mu.Unlock()
	id, err := h.job.HandleCreateSavepoint(context.Background())
	if err != nil {
		o.Res = 1
	} else {
		o.Cid = id
	}
	h.mu.Lock()
	cs := h.ckStarts
	h.ckStarts = nil
	h.mu.Unlock()
	sort.Slice(cs, func(i, j int) bool { return cs[i].sr < cs[j].sr })
	for _, c := range cs {
		o.Started = append(o.Started, nodeNum(c.sr))
		if c.id != id {
			o.Cid = 999999
		}
	}
	if err == nil && len(cs) > 0 && o.Cid != 999999 {
		h.lastCk = id
	}
	st, deps := h.settle()
	o.Status, o.Deps = statusN(st), deps
	return step{"OSavepoint", o}
}

// storeWrote is signalled by the slog handler when the store logs that it finished the state update that follows a
// snapshot file write (a synchronisation signal only: nothing is compared with it; without it the wait times out)
var storeWrote = make(chan struct{}, 64)
var storeWroteCount atomic.Int64 // number of such records so far in this process
var storeWroteBroken atomic.Bool // the record did not come within waitFor once: stop relying on it

type sigHandler struct{ slog.Handler }

func (sigHandler) Enabled(context.Context, slog.Level) bool { return true }
func (sigHandler) Handle(_ context.Context, r slog.Record) error {
	if r.Message == "store wrote checkpoint" {
		storeWroteCount.Add(1)
		select {
		case storeWrote <- struct{}{}:
		default:
		}
	}
	return nil
}
func (s sigHandler) WithAttrs([]slog.Attr) slog.Handler { return s }
func (s sigHandler) WithGroup(string) slog.Handler      { return s }

// publicationsSettled waits until every snapshot write this case's store has STARTED has been followed by the store's
// "store wrote checkpoint" record, i.e. until every finishSnapshotAsync goroutine is past its state update. Counting
// (records == writes entered) instead of waiting for "a" record matters: the record of an EARLIER publication may still
// be outstanding (it is emitted after the state lock is released) and must not be mistaken for the one awaited.
func (h *harness) publicationsSettled() {
	if storeWroteBroken.Load() {
		return
	}
	deadline := time.Now().Add(bound())
	for {
		h.loc.mu.Lock()
		entered := h.loc.snapWrites
		h.loc.mu.Unlock()
		if storeWroteCount.Load()-h.logBase >= int64(entered) {
			return
		}
		if time.Now().After(deadline) { // the record's text changed, or the store is wedged
			storeWroteBroken.Store(true)
			timedOut()
			return
		}
		select { // pacing only
		case <-storeWrote:
		case <-time.After(100 * time.Microsecond):
		}
	}
}

func (h *harness) releaseWrite() step {
	o := obs{}
	ck := h.heldCk
	if h.loc.releaseHeld() {
		h.heldCk = 0
		// the released write returns, then finishSnapshotAsync updates the store's state, then logs: the observation
		// below (did it become current?) is read after that record, hence after the state update - also when the
		// answer is "no" (superseded), which is therefore not an absence established by waiting
		h.publicationsSettled()
		if ck != 0 && h.loc.snapshot(ck) != nil && h.job.VerifCurrentCheckpointID() == ck {
			o.Published = ck
		}
	}
	st, deps := h.settle()
	o.Status, o.Deps = statusN(st), deps
	return step{"OReleaseW", o}
}

func (h *harness) ack(who, id string, ck uint64) (s step) {
	o := obs{}
	h.mu.Lock()
	before := h.splitCkpts
	h.mu.Unlock()
	func() {
		defer func() {
			if p := recover(); p != nil {
				o.Res = 2
			}
		}()
		var err error
		if who == "op" {
			rs := partitioning.NewKeySpace(keyGroups, h.wc).KeyGroupRanges()
			r := rs[h.posOf(id)%len(rs)]
			err = h.job.HandleOperatorCheckpointComplete(context.Background(), &snapshotpb.OperatorCheckpoint{
				CheckpointId: ck, OperatorId: id, DkvFileUri: fmt.Sprintf("mem://w/%s/ck-%d", id, ck),
				KeyGroupRange: &snapshotpb.KeyGroupRange{Start: int32(r.Start), End: int32(r.End)}})
		} else {
			err = h.job.HandleSourceRunnerCheckpointComplete(context.Background(), &jobpb.SourceRunnerCheckpointCompleteRequest{
				CheckpointId: ck, SourceRunnerId: id, SplitStates: [][]byte{[]byte(id)}})
		}
		if err != nil {
			o.Res = 1
		}
	}()
	h.mu.Lock()
	finishing := h.splitCkpts > before
	h.mu.Unlock()
	heldWrite := false
	if finishing && o.Res != 2 {
		// a publication was started (the splitter's Checkpoint() is called synchronously inside the ack that completes the
		// snapshot, so "no publication started" is known when the ack returns). Poll until one of the two events that
		// must follow: the file is written AND the checkpoint is current, or the storage holds the file write. The
		// deadline is the wedged verdict only; the 50 us timer paces the poll.
		deadline := time.Now().Add(bound())
		for time.Now().Before(deadline) {
			if h.loc.snapshot(ck) != nil && h.job.VerifCurrentCheckpointID() == ck {
				o.Published = ck
				break
			}
			if h.heldCk == 0 && h.loc.isHeld() { // the storage holds THIS file write: nothing is published until it is released
				heldWrite = true
				h.heldCk = ck
				break
			}
			select {
			case <-h.loc.written:
			case <-h.loc.heldSig:
			case <-time.After(50 * time.Microsecond):
			}
		}
		if o.Published == 0 && !heldWrite {
			timedOut()
		}
		if jc := h.loc.snapshot(ck); o.Published != 0 && (jc == nil || len(jc.OperatorCheckpoints) == 0) {
			o.Published = 0
		}
	}
	st, deps := h.settle()
	o.Status, o.Deps = statusN(st), deps
	c := "OAckSr"
	if who == "op" {
		c = "OAckOp"
	}
	return step{fmt.Sprintf("%s %d %d", c, nodeNum(id), ck), o}
}

func (h *harness) ckID(d int) uint64 {
	v := int64(h.lastCk) + int64(d)
	if v < 0 {
		v = 0
	}
	return uint64(v)
}

func (h *harness) run(ops []jop) []step {
	var out []step
	for _, op := range ops {
		switch op.K {
		case "reg":
			id := nid(op.Who, op.N)
			h.known[id] = true
			out = append(out, h.reg(op.Who, id))
		case "dereg":
			id := nid(op.Who, op.N)
			delete(h.known, id)
			out = append(out, h.dereg(op.Who, id))
		case "deregm":
			if id, ok := h.member(op.Who, op.N); ok {
				delete(h.known, id)
				out = append(out, h.dereg(op.Who, id))
			}
		case "killm": // the node stops heartbeating; nothing is sent to the job
			if id, ok := h.member(op.Who, op.N); ok {
				delete(h.known, id)
			}
		case "hb": // every node alive re-registers (that is the heartbeat), in id order
			var ids []string
			for id := range h.known {
				ids = append(ids, id)
			}
			sort.Strings(ids)
			for _, id := range ids {
				who := "sr"
				if id[0] == 'o' {
					who = "op"
				}
				out = append(out, h.reg(who, id))
			}
		case "adv":
			h.clock.Advance(time.Duration(op.N) * time.Millisecond)
			h.job.VerifSync()
			out = append(out, step{fmt.Sprintf("OAdv %d", op.N), obs{Status: statusN(h.job.VerifStatus())}})
		case "fin":
			out = append(out, h.fin(op.OK, op.N))
		case "tick":
			out = append(out, h.tick())
		case "sp":
			out = append(out, h.savepoint())
		case "holdw": // the next job-snapshot file write will block in the storage
			h.loc.armHold()
			h.job.VerifSync()
			out = append(out, step{"OHoldW", obs{Status: statusN(h.job.VerifStatus())}})
		case "relw": // the held write returns
			out = append(out, h.releaseWrite())
		case "ackm":
			if id, ok := h.member(op.Who, op.N); ok {
				out = append(out, h.ack(op.Who, id, h.ckID(op.D)))
			}
		case "ackold": // a late ack from a member of the assembly that was lost (slow / zombie worker)
			if id, ok := h.oldMember(op.Who, op.N); ok {
				out = append(out, h.ack(op.Who, id, h.ckID(op.D)))
			}
		case "ackallold":
			type m struct{ who, id string }
			var ms []m
			for _, id := range h.prevOps {
				ms = append(ms, m{"op", id})
			}
			for _, id := range h.prevSrs {
				ms = append(ms, m{"sr", id})
			}
			hx.Shuffle(hx.NewRand(uint64(op.N)), ms)
			for _, x := range ms {
				out = append(out, h.ack(x.who, x.id, h.ckID(op.D)))
			}
		case "ackn":
			out = append(out, h.ack(op.Who, nid(op.Who, op.N), h.ckID(op.D)))
		case "ackall":
			type m struct{ who, id string }
			var ms []m
			for _, id := range h.memOps {
				ms = append(ms, m{"op", id})
			}
			for _, id := range h.memSrs {
				ms = append(ms, m{"sr", id})
			}
			r := hx.NewRand(uint64(op.N))
			hx.Shuffle(r, ms)
			ck := h.ckID(op.D)
			for _, x := range ms {
				out = append(out, h.ack(x.who, x.id, ck))
			}
		}
	}
	// after the last observation: let a held write and a gated deployment finish so that no goroutine of this case
	// stays parked, and let every publication goroutine get past its log record so that the per-process record counter
	// is exact for the next case
	h.loc.releaseHeld()
	h.publicationsSettled()
	for i := 0; i < 4 && h.pendingDeploy; i++ {
		h.release(nil)
		h.pendingDeploy = false
		cw := cleanupWait
		if caseWedged {
			cw = time.Millisecond
		}
		deadline := time.Now().Add(cw)
		for time.Now().Before(deadline) {
			h.job.VerifSync()
			if h.job.VerifStatus() != "Starting" {
				break
			}
			time.Sleep(20 * time.Microsecond) // pacing
		}
		h.settle()
	}
	return out
}

// ---------------------------------------------------------------- Gallina printing

func nlist(xs []uint64) string {
	if len(xs) == 0 {
		return "(@nil N)"
	}
	s := make([]string, len(xs))
	for i, x := range xs {
		s[i] = fmt.Sprintf("%d", x)
	}
	return "[" + strings.Join(s, ";") + "]"
}

func depTerm(d depRec) string {
	return fmt.Sprintf("(MkDep %s %s %s %s)", nlist(d.Ops), nlist(d.Srs), nlist(d.Ck), hx.CoqBool(d.Peers))
}

func obsTerm(o obs) string {
	ds := make([]string, len(o.Deps))
	for i, d := range o.Deps {
		ds[i] = depTerm(d)
	}
	return fmt.Sprintf("(MkObs %d %s %s %d %d %d %d)", o.Status, hx.CoqList(ds, "dep"), nlist(o.Started), o.Cid, o.Res, o.Published, o.Split)
}

func (e eng) Execute(mode string, c *hx.Case) (*hx.Result, error) {
	if mode == "slot" {
		return executeSlot(c)
	}
	if mode == "state" {
		return executeState(c)
	}
	wc := intParam(c, "wc", 1)
	dl := intParam(c, "deadline", 5000)
	var ops []jop
	for _, raw := range c.Ops {
		var o jop
		if err := json.Unmarshal(raw, &o); err != nil {
			return nil, err
		}
		ops = append(ops, o)
	}
	h, err := newHarness(wc, dl)
	if err != nil {
		return nil, err
	}
	steps := h.run(ops)
	terms := make([]string, len(steps))
	var observed []any
	tags := map[string]bool{fmt.Sprintf("wc=%d", wc): true}
	deploys, finOK, cks, pubs, faults := 0, 0, 0, 0, 0
	prevRunning := false
	pendingCk := false
	pendingSp := false
	heldSeen, pubsSinceHoldRelease := false, false
	for i, s := range steps {
		if s.op == "OSavepoint" && s.o.Res == 0 {
			if len(s.o.Started) > 0 {
				tags["savepoint-started"] = true
			} else {
				tags["savepoint-folded-into-checkpoint"] = true
			}
			pendingSp = true
		}
		if s.op == "OSavepoint" && s.o.Res == 1 {
			tags["savepoint-refused"] = true
		}
		terms[i] = fmt.Sprintf("(%s, %s)", s.op, obsTerm(s.o))
		observed = append(observed, map[string]any{"op": s.op, "obs": s.o})
		deploys += len(s.o.Deps)
		if strings.HasPrefix(s.op, "OFin true") && s.o.Split != 0 {
			finOK++
			if finOK > 1 {
				tags["redeployed"] = true
			}
		}
		if strings.HasPrefix(s.op, "OFin false") {
			tags["deploy-failed"] = true
		}
		if s.op == "OTick" && s.o.Fired == 0 {
			tags["tick-with-no-live-ticker"] = true
		}
		if s.op == "OTick" && s.o.Fired > 0 && finOK > 1 {
			tags["tick-fired-recreated-ticker"] = true
		}
		if s.o.Cid != 0 {
			cks++
			pendingCk = true
			if finOK > 1 {
				tags["checkpoint-started-after-recovery"] = true
			}
		}
		if s.o.Published != 0 {
			pubs++
			pendingCk = false
			if pendingSp {
				tags["savepoint-published"] = true
			}
			pendingSp = false
			if finOK > 1 {
				tags["checkpoint-published-after-recovery"] = true
			}
		}
		if prevRunning && s.o.Status == 1 {
			faults++
			tags["running->paused"] = true
			if pendingCk {
				tags["fault-with-checkpoint-in-flight"] = true
			}
			if pendingCk && pendingSp {
				tags["fault-with-savepoint-in-flight"] = true
			}
			pendingSp = false
		}
		if s.o.Status == 2 && (strings.HasPrefix(s.op, "ODereg") || strings.HasPrefix(s.op, "OAdv")) {
			tags["membership-change-during-deploy"] = true
		}
		if s.op == "OReleaseW" {
			if s.o.Published != 0 {
				tags["held-write-released-becomes-current"] = true
			} else if heldSeen {
				tags["held-write-released-after-newer-published"] = true
			}
			heldSeen = false
		}
		if s.op == "OHoldW" {
			heldSeen = true
		}
		if len(s.o.Deps) > 0 && pubsSinceHoldRelease {
			tags["redeploy-after-superseded-late-write"] = true
		}
		if s.op == "OReleaseW" && s.o.Published == 0 {
			pubsSinceHoldRelease = true
		}
		if s.o.Res == 1 {
			tags["ack-rejected"] = true
		}
		if s.o.Status == 2 && strings.HasPrefix(s.op, "OAck") {
			tags["ack-while-new-assembly-deploys"] = true
			if pendingCk {
				tags["late-ack-of-lost-assembly-while-deploying"] = true
			}
		}
		if s.o.Res == 2 {
			tags["ack-panicked"] = true
		}
		for _, d := range s.o.Deps {
			for _, k := range d.Ck {
				if k != 0 {
					tags["deploy-from-checkpoint"] = true
				}
			}
		}
		prevRunning = s.o.Status == 3
	}
	if deploys == 0 {
		tags["no-deploy"] = true
	}
	if pubs > 0 {
		tags["published"] = true
	}
	var tl []string
	for t := range tags {
		tl = append(tl, t)
	}
	sort.Strings(tl)
	term := fmt.Sprintf("(JobCase %d %d %s)", wc, dl, hx.CoqList(terms, "op * obs"))
	return &hx.Result{Term: term, Nontrivial: finOK > 0 && (faults > 0 || cks > 0), Tags: tl, Observed: observed}, nil
}

func intParam(c *hx.Case, k string, def int) int {
	if v, ok := c.Params[k]; ok {
		switch x := v.(type) {
		case float64:
			return int(x)
		case int:
			return x
		}
	}
	return def
}

func main() {
	// a run given explicit cases (-cases: bin/check shrinking a failing case, or a replay) re-executes histories that have
	// already failed once under the 60 s bound; 10 s there keeps shrinking a wedged tree within minutes and is still
	// four orders of magnitude above the in-process events waited for. (hx's supervisor hands its worker child -cases
	// too, so the supervisor tells the child through the environment which kind of run this is.)
	hasCases, isWorker := false, false
	for _, a := range os.Args[1:] {
		if a == "-cases" || strings.HasPrefix(a, "-cases=") {
			hasCases = true
		}
		if a == "-worker" || strings.HasPrefix(a, "-worker=") {
			isWorker = true
		}
	}
	if hasCases && !isWorker {
		os.Setenv("VERIF_JOB_EXPLICIT_CASES", "1")
	}
	if os.Getenv("VERIF_JOB_EXPLICIT_CASES") == "1" {
		waitFor = 10 * time.Second
	}
	hx.Main(eng{})
}
