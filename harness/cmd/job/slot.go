package main

// mode slot: a REAL operator.Operator survives an assembly that failed while its checkpoint was half aligned
// (barriers of checkpoint a from a strict subset of its runners), is deployed again by the job, and must then
// align and acknowledge checkpoint b of the new assembly.

import (
	"context"
	"encoding/json"
	"fmt"
	"os"
	"sync"
	"time"

	"reduction.dev/reduction-protocol/handlerpb"
	"reduction.dev/reduction/batching"
	"reduction.dev/reduction/connectors/embedded"
	"reduction.dev/reduction/proto"
	"reduction.dev/reduction/proto/jobpb"
	"reduction.dev/reduction/proto/snapshotpb"
	"reduction.dev/reduction/proto/workerpb"
	"reduction.dev/reduction/util/verifhook"
	"reduction.dev/reduction/workers/operator"
	"verifharness/hx"
)

type slotOp struct {
	Runners int   `json:"runners"` // number of upstream source runners
	A       int   `json:"a"`       // id of the interrupted checkpoint
	First   []int `json:"first"`   // runners whose barrier of a arrives before the failure (distinct, strict subset)
	Refuse  bool  `json:"refuse,omitempty"`     // the job refuses the operator's ack of a (as the store does for an aborted / foreign id)
	NoRedep bool  `json:"no_redeploy,omitempty"` // no second deploy (what does the operator do with its slot then)
	Late    []int `json:"late"`    // runners whose (stale) barrier of a arrives only AFTER the second deploy
	B       int   `json:"b"`       // id of the checkpoint of the new assembly
	Second  []int `json:"second"`  // order in which the barriers of b arrive (a permutation of the runners)
}

type slotJob struct {
	proto.UnimplementedJob
	mu      sync.Mutex
	acks    []uint64
	refuse  map[uint64]bool
	refused []uint64
}

func (j *slotJob) RegisterOperator(context.Context, *jobpb.NodeIdentity) error   { return nil }
func (j *slotJob) DeregisterOperator(context.Context, *jobpb.NodeIdentity) error { return nil }
func (j *slotJob) OperatorCheckpointComplete(ctx context.Context, req *snapshotpb.OperatorCheckpoint) error {
	j.mu.Lock()
	defer j.mu.Unlock()
	if j.refuse[req.CheckpointId] {
		j.refused = append(j.refused, req.CheckpointId)
		return fmt.Errorf("operator %s tried to add to job checkpoint %d but there is no pending checkpoint", req.OperatorId, req.CheckpointId)
	}
	j.acks = append(j.acks, req.CheckpointId)
	return nil
}

type nopHandler struct{}

func (nopHandler) KeyEventBatch(context.Context, [][]byte) ([][]*handlerpb.KeyedEvent, error) {
	return nil, nil
}
func (nopHandler) ProcessEventBatch(context.Context, *handlerpb.ProcessEventBatchRequest) (*handlerpb.ProcessEventBatchResponse, error) {
	return &handlerpb.ProcessEventBatchResponse{}, nil
}

func genSlot(tier string, r *hx.Rand) []*hx.Case {
	n := 30
	if tier == "thorough" {
		n = 200
	}
	var cs []*hx.Case
	for i := 0; i < n; i++ {
		k := r.Range(1, 3)
		perm := make([]int, k)
		for j := range perm {
			perm[j] = j
		}
		hx.Shuffle(r, perm)
		nf := r.Intn(k) // strict subset, possibly empty
		if k > 1 && r.Chance(2, 3) {
			nf = r.Range(1, k-1)
		}
		first := append([]int{}, perm[:nf]...)
		hx.Shuffle(r, perm)
		a := r.Range(1, 5)
		var late []int
		if k > 1 && r.Chance(1, 4) { // a strict subset of the runners delivers a stale barrier of the old checkpoint
			for _, x := range perm[:r.Range(1, k-1)] {
				late = append(late, x)
			}
		}
		op := slotOp{Runners: k, A: a, First: first, Late: late, B: a + r.Range(1, 2), Second: append([]int{}, perm...)}
		if r.Chance(1, 3) { // all barriers of a arrive, the job refuses the ack (a was aborted): the slot stays complete but unreported
			all := append([]int{}, perm...)
			hx.Shuffle(r, all)
			op.First, op.Late, op.Refuse = all, nil, true
			op.NoRedep = r.Chance(1, 4)
		} else if r.Chance(1, 8) {
			op.NoRedep = true
			op.Late = nil
		}
		cs = append(cs, &hx.Case{Name: fmt.Sprintf("slot-%d", i), Params: map[string]any{"mode": "slot"}, Ops: []json.RawMessage{hx.Op(op)}})
	}
	return cs
}

func executeSlot(c *hx.Case) (*hx.Result, error) {
	caseWedged = false
	if len(c.Ops) == 0 {
		return &hx.Result{Term: "(SlotCase true false true (@nil N) 1 (@nil N) (@nil N) (@nil N) (@nil N) 2 (@nil N) (@nil N))", Tags: []string{"empty"}}, nil
	}
	var so slotOp
	if err := json.Unmarshal(c.Ops[0], &so); err != nil {
		return nil, err
	}
	dir, err := os.MkdirTemp("", "verif-c15-slot-")
	if err != nil {
		return nil, err
	}
	defer os.RemoveAll(dir)
	job := &slotJob{refuse: map[uint64]bool{}}
	if so.Refuse {
		job.refuse[uint64(so.A)] = true
	}
	opr := operator.NewOperator(operator.NewOperatorParams{ID: "op0", Job: job, UserHandler: nopHandler{},
		EventBatching: batching.EventBatcherParams{MaxSize: 4, MaxDelay: time.Hour}})
	ctx, cancel := context.WithCancel(context.Background())
	stopped := make(chan struct{})
	srIDs := make([]string, so.Runners)
	for i := range srIDs {
		srIDs[i] = fmt.Sprintf("r%d", i)
	}
	deploy := func() error {
		return opr.HandleDeploy(ctx, &workerpb.DeployOperatorRequest{
			Operators: []*jobpb.NodeIdentity{{Id: "op0", Host: "h"}}, SourceRunnerIds: srIDs, KeyGroupCount: keyGroups, StorageLocation: dir,
		}, &embedded.RecordingSink{})
	}
	// a retention update of the job reaching an operator that is registered but not deployed yet (standby, fresh worker)
	preOK := true
	func() {
		defer func() {
			if p := recover(); p != nil {
				preOK = false
			}
		}()
		if err := opr.HandleRemoveCheckpoints(ctx, &workerpb.UpdateRetainedCheckpointsRequest{CheckpointIds: []uint64{uint64(so.A)}}); err != nil {
			preOK = false
		}
	}()
	// a request parked by alignSender announces itself at the hook point: no time-out is needed to see it
	parked := make(chan string, 64)
	verifhook.Set(func(name string, args ...any) {
		if name == "operator.align.park" && len(args) == 1 {
			if id, ok := args[0].(string); ok {
				select {
				case parked <- id:
				default:
				}
			}
		}
	})
	defer verifhook.Set(nil)
	// the operator's Start closes its database when it stops: deploy first so that one exists
	if err := deploy(); err != nil {
		cancel()
		return nil, err
	}
	go func() { opr.Start(ctx); close(stopped) }()
	defer func() { // runs BEFORE the deferred RemoveAll: the operator's Start has returned (database closed) before its directory goes
		cancel()
		select {
		case <-stopped:
		case <-time.After(waitFor):
		}
	}()
	// Every barrier request either returns or announces that it parked (hook operator.align.park, confirmed through the
	// slot accessor): both are events; `waitFor` (60 s) is the wedged verdict (result 4), never a way to see "parked".
	// result of one barrier: 0 registered, 1 rejected, 2 completed the checkpoint (ack sent to the job), 3 parked by alignSender, 4 no answer
	barrier := func(sender int, id int) uint64 {
		job.mu.Lock()
		before, refBefore := len(job.acks), len(job.refused)
		job.mu.Unlock()
		ret := make(chan error, 1)
		go func() {
			ret <- opr.HandleEvent(ctx, srIDs[sender], &workerpb.Event{Event: &workerpb.Event_CheckpointBarrier{
				CheckpointBarrier: &workerpb.CheckpointBarrier{CheckpointId: uint64(id)}}})
		}()
		answer := func(err error) uint64 {
			job.mu.Lock()
			defer job.mu.Unlock()
			if err != nil {
				if len(job.refused) > refBefore {
					return 5 // all barriers in, checkpoint taken, the job refused the ack
				}
				return 1
			}
			if len(job.acks) > before && job.acks[len(job.acks)-1] == uint64(id) {
				return 2
			}
			return 0
		}
		for {
			select {
			case err := <-ret:
				return answer(err)
			case <-parked:
				// the request reached alignSender's wait: it is parked unless the slot is complete (channel already closed)
				if present, _, waiting := opr.VerifCheckpointSlot(); present && len(waiting) > 0 {
					return 3
				}
			case <-time.After(bound()):
				timedOut()
				return 4
			}
		}
	}
	// the operator handles events only once its loop runs and it is Ready; HandleEvent answers Unavailable before
	var r1, rl, r2 []uint64
	for _, s := range so.First {
		r1 = append(r1, barrier(s%so.Runners, so.A))
	}
	if !so.NoRedep {
		if err := deploy(); err != nil {
			return nil, fmt.Errorf("second deploy: %w", err)
		}
	}
	for _, s := range so.Late {
		rl = append(rl, barrier(s%so.Runners, so.A))
	}
	for _, s := range so.Second {
		r2 = append(r2, barrier(s%so.Runners, so.B))
	}
	conv := func(xs []int) []uint64 {
		out := make([]uint64, len(xs))
		for i, x := range xs {
			out[i] = uint64(x % so.Runners)
		}
		return out
	}
	runners := make([]uint64, so.Runners)
	for i := range runners {
		runners[i] = uint64(i)
	}
	tags := []string{fmt.Sprintf("runners=%d", so.Runners), fmt.Sprintf("barriers-before-redeploy=%d", len(so.First))}
	if len(so.Late) > 0 {
		tags = append(tags, "stale-barrier-after-redeploy")
	}
	if !preOK {
		tags = append(tags, "retention-update-before-deploy-failed")
	}
	if so.Refuse {
		tags = append(tags, "job-refused-ack-of-fully-aligned-checkpoint")
	}
	if so.NoRedep {
		tags = append(tags, "no-redeploy")
	}
	term := fmt.Sprintf("(SlotCase %s %s %s %s %d %s %s %s %s %d %s %s)", hx.CoqBool(preOK), hx.CoqBool(so.Refuse), hx.CoqBool(!so.NoRedep), nlist(runners), so.A, nlist(conv(so.First)), nlist(r1), nlist(conv(so.Late)), nlist(rl), so.B, nlist(conv(so.Second)), nlist(r2))
	return &hx.Result{Term: term, Nontrivial: len(so.First) > 0, Tags: tags,
		Observed: map[string]any{"retention_before_deploy_ok": preOK, "first_results": r1, "late_results": rl, "second_results": r2}}, nil
}
