package main

import (
	"fmt"

	"verifharness/hx"
)

func executeSlot(c *hx.Case) (*hx.Result, error) { return nil, fmt.Errorf("slot mode not built yet") }
func genSlot(tier string, r *hx.Rand) []*hx.Case { return nil }
