package main

import (
	"encoding/json"
	"fmt"

	"verifharness/hx"
)

type gen struct {
	r        *hx.Rand
	ops      []jop
	wc       int
	deadline int
	nextOp   int // next fresh node number
	nextSr   int
	gone     []jop // deregistered / killed explicit nodes that may come back
}

func (g *gen) add(o ...jop) { g.ops = append(g.ops, o...) }

func (g *gen) who() string {
	if g.r.Bool() {
		return "op"
	}
	return "sr"
}

// fault: one member of the assembly leaves, gracefully or by being killed (heartbeats stop, the others keep beating)
func (g *gen) fault() {
	who, pos := g.who(), g.r.Intn(g.wc)
	if g.r.Chance(1, 2) {
		g.add(jop{K: "deregm", Who: who, N: pos})
		if g.r.Chance(1, 3) { // a second member goes too
			g.add(jop{K: "deregm", Who: g.who(), N: g.r.Intn(g.wc)})
		}
		return
	}
	g.add(jop{K: "killm", Who: who, N: pos})
	if g.r.Chance(1, 4) { // boundary: the last heartbeat is exactly one deadline old -- not expired yet; one millisecond later it is
		a := g.deadline*6/10 + g.r.Intn(g.deadline/4+1)
		g.add(jop{K: "adv", N: a}, jop{K: "hb"}, jop{K: "adv", N: g.deadline - a}, jop{K: "hb"}, jop{K: "tick"}, jop{K: "adv", N: 1}, jop{K: "hb"})
		return
	}
	a := g.deadline*6/10 + g.r.Intn(g.deadline/4+1)
	g.add(jop{K: "adv", N: a}, jop{K: "hb"}, jop{K: "adv", N: g.deadline - a + 1 + g.r.Intn(g.deadline/2+1)}, jop{K: "hb"})
}

// lateAcks: members of the lost assembly acknowledge its checkpoint while the new assembly is being deployed
func (g *gen) lateAcks() {
	switch g.r.Intn(4) {
	case 0:
	case 1:
		g.add(jop{K: "ackold", Who: g.who(), N: g.r.Intn(g.wc)})
	default:
		g.add(jop{K: "ackallold", N: g.r.Intn(1000)})
	}
}

// recover: fresh nodes register (or nothing when standbys exist), heartbeats give the job an event to react to
func (g *gen) recoverNodes() {
	switch g.r.Intn(5) {
	case 0: // rely on standbys
	case 1:
		g.add(jop{K: "reg", Who: "op", N: g.nextOp})
		g.nextOp++
	case 2:
		g.add(jop{K: "reg", Who: "sr", N: g.nextSr})
		g.nextSr++
	default:
		g.add(jop{K: "reg", Who: "op", N: g.nextOp}, jop{K: "reg", Who: "sr", N: g.nextSr})
		g.nextOp++
		g.nextSr++
	}
	if g.r.Chance(1, 6) { // an old low-numbered node comes back
		g.add(jop{K: "reg", Who: g.who(), N: g.r.Intn(3)})
	}
	g.add(jop{K: "hb"})
}

// starter: a periodic tick, a requested savepoint, or a tick upgraded to a savepoint by a request folding into it
func (g *gen) starter() {
	switch g.r.Intn(6) {
	case 0, 1:
		g.add(jop{K: "sp"})
	case 2:
		g.add(jop{K: "tick"}, jop{K: "sp"})
	default:
		g.add(jop{K: "tick"})
	}
}

func (g *gen) checkpointRound(full bool) {
	g.starter()
	if full {
		g.add(jop{K: "ackall", N: g.r.Intn(1000)})
		return
	}
	n := g.r.Intn(2 * g.wc)
	for i := 0; i < n; i++ {
		g.add(jop{K: "ackm", Who: g.who(), N: g.r.Intn(g.wc)})
	}
}

// slowWrite: the snapshot file write of checkpoint N is held by the storage; N+1 (or more) is started, acknowledged and
// published meanwhile (or not); the write returns; a member is lost and the job redeploys
func (g *gen) slowWrite() {
	g.add(jop{K: "holdw"})
	g.checkpointRound(true) // N: fully acknowledged, write held
	for k := g.r.Intn(3); k > 0; k-- {
		g.checkpointRound(g.r.Chance(4, 5)) // N+1..: published normally
	}
	if g.r.Chance(1, 5) { // the failure strikes while the write is still held
		g.fault()
		g.recoverNodes()
		g.add(jop{K: "relw"}, jop{K: "fin", OK: true})
		return
	}
	g.add(jop{K: "relw"})
	g.fault()
	g.recoverNodes()
	g.add(jop{K: "fin", OK: g.r.Chance(5, 6), N: g.r.Intn(8)}, jop{K: "fin", OK: true})
}

func (g *gen) noise() {
	switch g.r.Intn(7) {
	case 0:
		g.add(jop{K: "ackn", Who: g.who(), N: 40 + g.r.Intn(3)}) // foreign node
	case 1:
		g.add(jop{K: "ackm", Who: g.who(), N: g.r.Intn(g.wc), D: []int{-1, 1, 2}[g.r.Intn(3)]}) // wrong id
	case 2:
		if g.r.Bool() {
			g.add(jop{K: "tick"})
		} else {
			g.add(jop{K: "sp"})
		}
	case 3:
		g.add(jop{K: "adv", N: g.r.Intn(g.deadline / 3)}, jop{K: "hb"})
	case 4:
		g.add(jop{K: "fin", OK: g.r.Bool(), N: g.r.Intn(8)})
	case 5:
		g.add(jop{K: "dereg", Who: g.who(), N: g.r.Intn(6)})
	case 6:
		g.add(jop{K: "reg", Who: g.who(), N: g.r.Intn(6)})
	}
}

func genCase(r *hx.Rand, idx int, tier string) *hx.Case {
	g := &gen{r: r}
	g.wc = []int{1, 2, 2, 3}[r.Intn(4)]
	g.deadline = []int{1000, 5000, 5000, 30000}[r.Intn(4)]
	sbOp := []int{0, 0, 1, 2}[r.Intn(4)]
	sbSr := []int{0, 0, 1, 2}[r.Intn(4)]
	g.nextOp, g.nextSr = g.wc+sbOp, g.wc+sbSr
	// boot: registrations in random order
	var boot []jop
	for i := 0; i < g.nextOp; i++ {
		boot = append(boot, jop{K: "reg", Who: "op", N: i})
	}
	for i := 0; i < g.nextSr; i++ {
		boot = append(boot, jop{K: "reg", Who: "sr", N: i})
	}
	hx.Shuffle(r, boot)
	if r.Chance(1, 8) && len(boot) > 2 { // a node leaves again before the assembly is complete
		k := r.Intn(len(boot) - 1)
		x := boot[k]
		boot = append(boot[:k+1], append([]jop{{K: "dereg", Who: x.Who, N: x.N}}, boot[k+1:]...)...)
		boot = append(boot, jop{K: "reg", Who: x.Who, N: x.N})
	}
	g.add(boot...)
	// first deployment: sometimes a fault or a failure strikes it
	switch r.Intn(6) {
	case 0:
		g.fault()
		g.add(jop{K: "fin", OK: true})
		g.recoverNodes()
		g.add(jop{K: "fin", OK: true})
	case 1:
		g.add(jop{K: "fin", OK: false, N: r.Intn(8)}, jop{K: "fin", OK: true})
	default:
		g.add(jop{K: "fin", OK: true})
	}
	rounds := r.Range(2, 6)
	if tier == "thorough" {
		rounds = r.Range(2, 10)
	}
	for k := 0; k < rounds; k++ {
		switch r.Intn(10) {
		case 0, 1: // complete checkpoint
			g.checkpointRound(true)
		case 2, 3, 4: // fault with a checkpoint in flight, then recovery and a checkpoint on the new assembly
			g.checkpointRound(false)
			g.fault()
			g.recoverNodes()
			g.lateAcks()
			if r.Chance(1, 4) { // and a fault during the redeployment
				g.fault()
				g.add(jop{K: "fin", OK: r.Chance(3, 4)})
				g.recoverNodes()
			}
			g.add(jop{K: "fin", OK: r.Chance(5, 6), N: r.Intn(8)}, jop{K: "fin", OK: true})
			if r.Chance(1, 3) { // late acks of the old checkpoint from survivors
				g.add(jop{K: "ackm", Who: g.who(), N: r.Intn(g.wc)})
			}
			g.checkpointRound(true)
		case 5, 6: // fault while idle
			g.fault()
			g.recoverNodes()
			g.add(jop{K: "fin", OK: r.Chance(5, 6), N: r.Intn(8)}, jop{K: "fin", OK: true})
			g.checkpointRound(r.Chance(3, 4))
		case 7: // heartbeat round, or slow storage
			if r.Bool() {
				g.slowWrite()
				g.checkpointRound(true)
				break
			}
			g.add(jop{K: "adv", N: g.deadline / 3}, jop{K: "hb"})
		case 8:
			g.noise()
			g.noise()
		case 9: // duplicate / late acks after a complete checkpoint
			g.checkpointRound(true)
			g.add(jop{K: "ackm", Who: g.who(), N: r.Intn(g.wc)})
		}
		if r.Chance(1, 5) {
			g.noise()
		}
	}
	c := &hx.Case{Name: fmt.Sprintf("hist-%d", idx), Params: map[string]any{"mode": "c15", "wc": g.wc, "deadline": g.deadline}}
	for _, o := range g.ops {
		c.Ops = append(c.Ops, hx.Op(o))
	}
	return c
}

// genLateAck (mode c12): only the reassembly-with-late-ack regime: checkpoint partly acknowledged, a member is lost,
// the new assembly's Deploy is gated, members of the lost assembly acknowledge, deployment ends, next checkpoint
func genLateAck(r *hx.Rand, idx int) *hx.Case {
	g := &gen{r: r}
	g.wc = []int{1, 2, 2, 3}[r.Intn(4)]
	g.deadline = 5000
	sb := r.Intn(2)
	g.nextOp, g.nextSr = g.wc+sb, g.wc+sb
	for i := 0; i < g.nextOp; i++ {
		g.add(jop{K: "reg", Who: "op", N: i})
	}
	for i := 0; i < g.nextSr; i++ {
		g.add(jop{K: "reg", Who: "sr", N: i})
	}
	g.add(jop{K: "fin", OK: true})
	if r.Chance(1, 3) {
		g.checkpointRound(true)
	}
	for k := r.Range(1, 2); k > 0; k-- {
		g.checkpointRound(false)
		g.fault()
		g.recoverNodes()
		g.add(jop{K: "ackallold", N: r.Intn(1000)})
		if r.Chance(1, 3) {
			g.add(jop{K: "ackold", Who: g.who(), N: r.Intn(g.wc)})
		}
		g.add(jop{K: "fin", OK: r.Chance(5, 6), N: r.Intn(8)}, jop{K: "fin", OK: true})
		if r.Chance(1, 2) {
			g.add(jop{K: "ackallold", N: r.Intn(1000)})
		}
		g.checkpointRound(true)
	}
	c := &hx.Case{Name: fmt.Sprintf("lateack-%d", idx), Params: map[string]any{"mode": "c12", "wc": g.wc, "deadline": g.deadline}}
	for _, o := range g.ops {
		c.Ops = append(c.Ops, hx.Op(o))
	}
	return c
}

func (e eng) Generate(mode, tier string, r *hx.Rand) []*hx.Case {
	if mode == "slot" {
		return genSlot(tier, r)
	}
	if mode == "state" {
		return genState(tier, r)
	}
	if mode == "c12" {
		n := 150
		if tier == "thorough" {
			n = 1500
		}
		var cs []*hx.Case
		for i := 0; i < n; i++ {
			cs = append(cs, genLateAck(r.Fork(), i))
		}
		return cs
	}
	n := 700
	if tier == "thorough" {
		n = 8000
	}
	var cs []*hx.Case
	for i := 0; i < n; i++ {
		cs = append(cs, genCase(r.Fork(), i, tier))
	}
	return cs
}

var _ = json.Marshal
