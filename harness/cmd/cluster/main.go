// engine cluster: the REAL job + snapshot store + operators (DKV) + source runners wired in-process (harness/clusterlib).
// mode c01: exactly-once keyed state across worker/job failure and recovery.
//
// A case = params {workers, kg, op_batch, sr_batch, read_batch, splits:[[{id,key}]]} + ops (the schedule):
//
//	{"op":"feed","split":s,"n":k}            let the readers return k more records of split s (s<0: of every split)
//	{"op":"drain"}                           wait until everything read so far has been applied
//	{"op":"fire"}                            fire the pending batch time-outs once
//	{"op":"ckpt","perm":[..],"crash_after":k,"crash":{..}}
//	                                         trigger a checkpoint with all acknowledgements held back; release them in the
//	                                         order given by perm (perm[i] mod #parked); with crash_after>=0 the crash
//	                                         happens after that many acknowledgements reached the job
//	{"op":"crash","crash":{"kill":[..]|null(all),"job":bool,"notice":"expire"|"dereg","workers":n}}
//	                                         kill the given workers (indexes into the live ones) or all, optionally the job;
//	                                         restart with n workers (a surviving job keeps its worker count)
//
// After the ops the engine lets the run finish (restarting everything if the cluster is wedged), waits until all input
// has been applied, and reads the final state of every key with probe records.
package main

import (
	"encoding/json"
	"fmt"
	"os"
	"path/filepath"
	"runtime"
	"slices"
	"sort"
	"strings"
	"sync"
	"sync/atomic"
	"time"

	"verifharness/clusterlib"
	"verifharness/hx"
)

type eng struct{}

func (eng) Name() string { return "cluster" }
func (eng) CoqRequire(mode string) string {
	return "From Coq Require Import List NArith Bool.\nImport ListNotations.\nFrom RV Require Import Corr.Check_cluster."
}
func (eng) CoqCaseType(mode string) string { return "Check_cluster.case" }
func (eng) CoqRun(mode string) string      { return "Check_cluster.run" }
func (eng) Rule(mode string) string {
	return "random inputs (1-4 splits, 2-14 records each, 1-5 keys), 1-3 workers, 1-16 key groups, operator/runner/read batch sizes 1-5, tiny DKV (256-byte memtables); schedules of feed/drain/checkpoint/crash ops: checkpoints with every acknowledgement held and released in a random permutation, crashes before/during (after k acknowledgements)/after checkpoints, of all workers with or without the job, restart with the same or another worker count; checkpoints whose publication (file write) is held while all workers are lost and a new assembly is deployed, released before / during the job's Deploy / after; event time in the cases with >= 3 splits: every third record registers a timer whose firing is recorded in keyed state, watermarks advance at generated points before and after crashes and at the end; transient read outages on an operator's DKV storage right after a restart from a checkpoint (the worker stops, everything restarts); a third of the cases with 1-2 hot keys whose summary entry is rewritten across memtable flushes. Non-trivial: at least one crash after which records were applied, and at least one published checkpoint."
}

type recJ struct {
	ID  uint32 `json:"id"`
	Key int    `json:"key"`
}
type crashJ struct {
	Kill    []int  `json:"kill,omitempty"` // indexes into the live workers; empty = all
	Job     bool   `json:"job,omitempty"`
	Notice  string `json:"notice,omitempty"` // expire | dereg (only when the job survives)
	Workers int    `json:"workers,omitempty"`
}
type opJ struct {
	Op         string  `json:"op"`
	Split      int     `json:"split,omitempty"`
	N          int     `json:"n,omitempty"`
	Perm       []int   `json:"perm,omitempty"`
	CrashAfter int     `json:"crash_after,omitempty"` // -1 or absent with Crash==nil: no crash
	Crash      *crashJ `json:"crash,omitempty"`
	// PubHold: the checkpoint is fully acknowledged but its file is written only later (slow storage); meanwhile all workers
	// are lost (job alive) and a new assembly is deployed. The file write is released "before" the new workers exist,
	// during the job's Deploy calls ("deploy": between the job's checkpoint read and the start of the source splitter),
	// or "after" the new generation runs.
	PubHold string `json:"pub_hold,omitempty"`
	// op "outage": transient read outage on the DKV storage of live worker `worker` (index into the live ones): after
	// `after` more data reads of its table files, `len` reads fail; then `n` more records per split are fed. The current
	// code fails the batch, the worker stops and everything is restarted from the latest checkpoint.
	Worker int `json:"worker,omitempty"`
	After  int `json:"after,omitempty"`
	Len    int `json:"len,omitempty"`
	// outage with Ckpt: a checkpoint is triggered as soon as the fed records have been read, so that they are still in the
	// operator's pending batch when the barrier arrives and the flush before the cut reads state during the outage
	Ckpt bool `json:"ckpt,omitempty"`
}

func pInt(c *hx.Case, k string, d int) int {
	if v, ok := c.Params[k]; ok {
		switch x := v.(type) {
		case float64:
			return int(x)
		case int:
			return x
		}
	}
	return d
}

// a healthy step takes microseconds to a few milliseconds. Once a step of a case timed out the case is stalled and its
// remaining waits are short; once several cases of this process did not complete (a broken tree), all waits are short.
var stepTimeout = 2 * time.Second
var incomplete atomic.Int32

const shortTimeout = 150 * time.Millisecond

type runner struct {
	deployHook    atomic.Pointer[func(first bool)]
	flushedAtCkpt bool // some operator had flushed tables when the last checkpoint was published
	stalled       bool
	c             *clusterlib.Cluster
	sc            *clusterlib.Script
	w             int // current worker count of the job
	tags          map[string]bool
	notes         []string
}

func (r *runner) timeout() time.Duration {
	if r.stalled || incomplete.Load() >= 4 {
		return shortTimeout
	}
	return stepTimeout
}

// wait waits on explicit signals for cond; a timeout marks the case as stalled
func (r *runner) wait(cond func(l *clusterlib.Log) bool) bool {
	if r.c.Await(cond, r.timeout()) {
		return true
	}
	r.stalled = true
	return false
}

func keyBytes(k int) []byte { return []byte(fmt.Sprintf("key-%d", k)) }

// everything the readers of the current generation handed out has been applied in the current generation
func (r *runner) drainedCond() func(l *clusterlib.Log) bool {
	return func(l *clusterlib.Log) bool {
		g := r.c.Generation()
		ap := map[uint32]bool{}
		for _, iv := range l.Invocations {
			if iv.Gen == g {
				ap[iv.Rec] = true
			}
		}
		for _, e := range l.Emissions {
			if e.Gen != g {
				continue
			}
			for _, id := range e.IDs {
				if !ap[id] {
					return false
				}
			}
		}
		return true
	}
}

// readers of the current generation have handed out everything that is allowed
func (r *runner) readAllCond() func(l *clusterlib.Log) bool {
	return func(l *clusterlib.Log) bool {
		g := r.c.Generation()
		pos := map[int]int{}
		for _, a := range l.Assignments {
			if a.Gen == g {
				if _, ok := pos[a.Split]; !ok || a.Cursor > pos[a.Split] {
					pos[a.Split] = a.Cursor
				}
			}
		}
		for _, e := range l.Emissions {
			if e.Gen == g && e.To > pos[e.Split] {
				pos[e.Split] = e.To
			}
		}
		for s := 0; s < r.sc.NumSplits(); s++ {
			if pos[s] < r.sc.Allowed(s) {
				return false
			}
		}
		return true
	}
}

func (r *runner) running() bool { return len(r.c.LiveWorkers()) >= r.w }

func (r *runner) crash(cr *crashJ) {
	if cr == nil {
		cr = &crashJ{}
	}
	live := r.c.LiveWorkers()
	genBefore := r.c.Generation()
	if r.flushedAtCkpt {
		r.tags["crash-after-ckpt-with-flushed-tables"] = true
	}
	var victims []int
	seen := map[int]bool{}
	for _, k := range cr.Kill {
		if len(live) > 0 {
			v := live[((k%len(live))+len(live))%len(live)]
			if !seen[v] {
				seen[v] = true
				victims = append(victims, v)
			}
		}
	}
	if len(victims) == 0 || cr.Job {
		victims = live
	}
	nw := cr.Workers
	if nw < 1 {
		nw = r.w
	}
	if cr.Job {
		r.tags["crash:job+workers"] = true
		if nw != r.w {
			r.tags["rescale"] = true
		}
		if err := r.c.RestartJob(nw); err != nil {
			r.notes = append(r.notes, "RestartJob: "+err.Error())
			return
		}
		r.w = nw
		r.c.StartWorkers(nw)
	} else {
		if len(victims) == len(live) {
			r.tags["crash:all-workers"] = true
		} else {
			r.tags["crash:some-workers"] = true
		}
		for _, v := range victims {
			r.c.Kill(v)
		}
		r.c.AwaitStopped(victims, r.timeout())
		// acknowledgements of survivors that were held back reach the job now
		for _, a := range r.c.Parked() {
			r.c.Release(a)
		}
		if cr.Notice == "dereg" {
			for _, v := range victims {
				r.c.Deregister(v)
			}
		} else {
			r.c.ExpireHeartbeats()
		}
		r.c.StartWorkers(len(victims))
	}
	if !r.c.AwaitRunning(genBefore, r.timeout()) {
		r.tags["restart-not-running"] = true
		r.stalled = true
	}
}

func (r *runner) checkpoint(o *opJ) {
	if !r.running() {
		r.tags["ckpt-skipped-not-running"] = true
		return
	}
	before := len(r.c.Log().Started)
	r.c.HoldAcks(true)
	defer func() {
		r.c.HoldAcks(false)
		for _, a := range r.c.Parked() {
			r.c.Release(a)
		}
	}()
	if err := r.c.TriggerCheckpoint(); err != nil {
		r.tags["ckpt-trigger-error"] = true
		return
	}
	l := r.c.Log()
	if len(l.Started) == before {
		r.tags["ckpt-refused"] = true // a checkpoint is still pending in the job
		return
	}
	id := l.Started[len(l.Started)-1]
	total := 2 * r.w
	released := 0
	crashAt := -1
	if o.PubHold != "" {
		r.c.HoldPublication()
		defer r.c.ReleasePublication()
	}
	if o.Crash != nil && o.PubHold == "" {
		crashAt = o.CrashAfter
		if crashAt < 0 {
			crashAt = 0
		}
		if crashAt >= total {
			crashAt = total - 1
		}
	}
	for released < total {
		if crashAt == released {
			r.tags[fmt.Sprintf("crash:during-ckpt")] = true
			r.c.HoldAcks(false)
			r.crash(o.Crash)
			return
		}
		// all runner acknowledgements arrive independently of each other; the operators' ones once every runner's has
		// been released (a runner forwards its barrier only after its acknowledgement returned). Wait on signals until
		// everything that can arrive without a further release is parked, so that the permutation has its full choice.
		expect := r.w - released
		if released >= r.w {
			expect = total - released
		}
		if !r.wait(func(*clusterlib.Log) bool { return len(r.c.Parked()) >= expect }) {
			r.tags["ckpt-acks-missing"] = true
			if len(r.c.Parked()) == 0 {
				return
			}
		}
		parked := r.c.Parked()
		if len(parked) == 0 {
			continue
		}
		pick := 0
		if released < len(o.Perm) {
			pick = ((o.Perm[released] % len(parked)) + len(parked)) % len(parked)
		}
		if pick != 0 {
			r.tags["ack-permuted"] = true
		}
		r.c.Release(parked[pick])
		released++
	}
	published := func(done bool) func(l *clusterlib.Log) bool {
		return func(l *clusterlib.Log) bool {
			for _, p := range l.Published {
				if p.ID == id && p.Done == done {
					return true
				}
			}
			return false
		}
	}
	if o.PubHold != "" {
		// every acknowledgement is in, the publication is in flight (the file write is held)
		if !r.wait(published(false)) {
			r.tags["ckpt-not-published"] = true
			return
		}
		r.c.HoldAcks(false)
		cr := &crashJ{Notice: "dereg"}
		if o.Crash != nil {
			cr.Notice = o.Crash.Notice
		}
		r.tags["pub-held:"+o.PubHold] = true
		switch o.PubHold {
		case "before":
			r.c.ReleasePublication()
			r.wait(published(true))
			r.c.AwaitCurrent(id, 20*time.Second)
			r.crash(cr)
		case "deploy":
			hook := func(first bool) {
				if first {
					r.c.ReleasePublication()
					r.c.AwaitNoFlush(published(true), time.Second)
					time.Sleep(time.Millisecond) // not a synchronisation: lets the store record the publication before the job goes on
				}
			}
			r.deployHook.Store(&hook)
			r.crash(cr)
			r.deployHook.Store(nil)
			r.c.ReleasePublication()
			r.wait(published(true))
		default: // "after"
			r.crash(cr)
			r.c.ReleasePublication()
			r.wait(published(true))
		}
		return
	}
	if !r.wait(published(true)) {
		r.tags["ckpt-not-published"] = true
		return
	}
	r.c.AwaitCurrent(id, 20*time.Second) // the store has recorded it too: a surviving job restarts from it
	r.tags["ckpt-published"] = true
	r.flushedAtCkpt = sstCount(r.c.WorkDir()) > 0
}

// finalWait is wait with the generous deadline of the final phase: nothing there may be decided by a short time-out (only a
// really wedged cluster runs into it; then the supervisor restart / "not completed" path is taken).
func (r *runner) finalWait(cond func(l *clusterlib.Log) bool) bool {
	t := 20 * time.Second
	if incomplete.Load() >= 4 {
		t = shortTimeout
	}
	return r.c.Await(cond, t)
}

// fireRemainingTimers makes every timer still pending due and returns only when all firings have been applied: event time is
// advanced past every timer, every runner hands a watermark to its event loop (rendezvous), and then a checkpoint of OUR
// OWN is started and published - its barriers travel behind those watermarks in every runner->operator channel and an
// operator flushes its pending batch (the TimerExpired events) before it cuts. A refused start (an older checkpoint is
// still completing) is retried, never replaced by a time-based guess.
func (r *runner) fireRemainingTimers() bool {
	r.sc.Advance()
	if !r.finalWait(r.readAllCond()) {
		return false
	}
	if d, ok := r.c.TickWatermarksTimed(); !ok {
		return false
	} else if d > 50*time.Millisecond {
		r.tags["watermark-tick-took>50ms"] = true
	}
	deadline := time.Now().Add(20 * time.Second)
	var id uint64
	for {
		before := len(r.c.Log().Started)
		err := r.c.TriggerCheckpoint()
		if st := r.c.Log().Started; err == nil && len(st) > before {
			id = st[len(st)-1]
			break
		}
		r.tags["final-barrier-retried"] = true
		if time.Now().After(deadline) || !r.running() || incomplete.Load() >= 4 {
			return false
		}
		n := len(r.c.Log().Published)
		r.c.Await(func(l *clusterlib.Log) bool { return len(l.Published) > n }, 50*time.Millisecond) // an older checkpoint completing
	}
	return r.finalWait(func(l *clusterlib.Log) bool {
		for _, p := range l.Published {
			if p.ID == id && p.Done {
				return true
			}
		}
		return !r.running()
	}) && r.running()
}

// outage injects a transient storage read outage, lets more input flow, and restarts the whole cluster (like a supervisor)
// if a worker stopped because of it.
func (r *runner) outage(o *opJ) {
	if !r.running() {
		return
	}
	live := r.c.LiveWorkers()
	v := live[((o.Worker%len(live))+len(live))%len(live)]
	n := o.Len
	if n < 1 {
		n = 1
	}
	before := r.c.DataReads(v)
	defer func() {
		d := r.c.DataReads(v) - before
		switch {
		case d == 0:
			r.tags["outage-window-data-reads=0"] = true
		case d <= 30:
			r.tags["outage-window-data-reads=1..30"] = true
		default:
			r.tags["outage-window-data-reads>30"] = true
		}
	}()
	r.c.InjectReadOutage(v, o.After, n)
	for s := 0; s < r.sc.NumSplits(); s++ {
		r.sc.Allow(s, max(o.N, 1))
	}
	died := func() bool { return len(r.c.LiveWorkers()) < r.w }
	if o.Ckpt {
		r.c.AwaitNoFlush(r.readAllCond(), r.timeout())
		before := len(r.c.Log().Started)
		if err := r.c.TriggerCheckpoint(); err == nil {
			if st := r.c.Log().Started; len(st) > before {
				id := st[len(st)-1]
				r.c.AwaitNoFlush(func(l *clusterlib.Log) bool { // only the runners' batch time-outs: the barrier's own flush is what reads state
					r.c.FireRunnerTimers()
					if died() {
						return true
					}
					for _, p := range l.Published {
						if p.ID == id && p.Done {
							r.tags["outage:checkpoint-published-during-outage"] = true
							return true
						}
					}
					return false
				}, r.timeout())
			}
		}
	}
	r.c.Await(func(l *clusterlib.Log) bool { return died() || (r.readAllCond()(l) && r.drainedCond()(l)) }, r.timeout())
	if r.c.ReadOutageHits(v) > 0 {
		r.tags["outage:reads-failed"] = true
	} else {
		r.tags["outage:not-hit"] = true
	}
	r.c.InjectReadOutage(v, 0, 0) // the outage is over
	if died() {
		r.tags["outage:worker-stopped"] = true
		gb := r.c.Generation()
		if err := r.c.RestartJob(r.w); err != nil {
			r.notes = append(r.notes, "RestartJob: "+err.Error())
			return
		}
		r.c.StartWorkers(r.w)
		if !r.c.AwaitRunning(gb, r.timeout()) {
			r.tags["restart-not-running"] = true
			r.stalled = true
		}
	}
}

func firesOf(l clusterlib.Log) []string {
	var out []string
	for _, f := range l.Fires {
		out = append(out, fmt.Sprintf("g%d w%d %s@%d #%d", f.Gen, f.Worker, f.Key, f.TS, f.Count))
		if len(out) >= 60 {
			break
		}
	}
	return out
}

// sstCount counts flushed table files under the operators' DKV directories.
func sstCount(dir string) int {
	n := 0
	filepath.WalkDir(dir, func(p string, d os.DirEntry, err error) error {
		if err == nil && !d.IsDir() && strings.HasSuffix(p, ".sst") {
			n++
		}
		return nil
	})
	return n
}

var debug = os.Getenv("VERIF_DEBUG") != ""

func dbg(format string, a ...any) {
	if debug {
		fmt.Fprintf(os.Stderr, format+"\n", a...)
	}
}

// Execute runs one case under a watchdog: a hang of the real code (or of the harness) becomes an error with a goroutine dump.
func (e eng) Execute(mode string, c *hx.Case) (*hx.Result, error) {
	type out struct {
		r   *hx.Result
		err error
		pan any
	}
	ch := make(chan out, 1)
	go func() {
		defer func() {
			if p := recover(); p != nil {
				ch <- out{pan: p}
			}
		}()
		r, err := e.execute(mode, c)
		ch <- out{r: r, err: err}
	}()
	select {
	case o := <-ch:
		if o.pan != nil {
			panic(o.pan)
		}
		return o.r, o.err
	case <-time.After(60 * time.Second):
		buf := make([]byte, 1<<20)
		n := runtime.Stack(buf, true)
		os.WriteFile(filepath.Join(os.TempDir(), "verif-cluster-hang.txt"), buf[:n], 0o644)
		return nil, fmt.Errorf("case %s hung for 60s (goroutine dump in %s/verif-cluster-hang.txt)", c.Name, os.TempDir())
	}
}

func (eng) execute(mode string, c *hx.Case) (*hx.Result, error) {
	if mode != "c01" {
		return nil, fmt.Errorf("unknown mode %q", mode)
	}
	var splitsJ [][]recJ
	if raw, ok := c.Params["splits"]; ok {
		b, _ := json.Marshal(raw)
		if err := json.Unmarshal(b, &splitsJ); err != nil {
			return nil, err
		}
	}
	if len(splitsJ) == 0 {
		return nil, fmt.Errorf("no splits")
	}
	keys := map[int]bool{}
	var splits [][]clusterlib.Record
	for _, sp := range splitsJ {
		var rs []clusterlib.Record
		for _, rc := range sp {
			rs = append(rs, clusterlib.Record{ID: rc.ID, Key: keyBytes(rc.Key)})
			keys[rc.Key] = true
		}
		splits = append(splits, rs)
	}
	var keyList []int
	for k := range keys {
		keyList = append(keyList, k)
	}
	sort.Ints(keyList)
	keyIdx := map[string]int{}
	for _, k := range keyList {
		keyIdx[string(keyBytes(k))] = k
	}

	// Case directories are removed only when the process ends: a database that the real code leaves open (e.g. the old
	// DB of a re-deployed operator) may still flush in the background, and would panic on a vanished directory.
	dir, err := os.MkdirTemp(procDir(), "case-")
	if err != nil {
		return nil, err
	}

	sc := clusterlib.NewScript(splits)
	timersOn := false
	if v, ok := c.Params["timers"].(bool); ok && v {
		timersOn = true
		sc.TimerEvery = 3
	}
	w := pInt(c, "workers", 2)
	r := &runner{sc: sc, w: w, tags: map[string]bool{}}
	cl, err := clusterlib.New(clusterlib.Options{Dir: dir, Workers: w, KeyGroups: pInt(c, "kg", 8), OpBatch: pInt(c, "op_batch", 1),
		SrBatch: pInt(c, "sr_batch", 1), ReadBatch: pInt(c, "read_batch", 1), Script: sc,
		Hooks: clusterlib.Hooks{OnDeploy: func(gen int64, opID string, first bool) {
			if f := r.deployHook.Load(); f != nil {
				(*f)(first)
			}
		}}})
	if err != nil {
		return nil, err
	}
	defer cl.Close()
	r.c = cl
	cl.StartWorkers(w)
	if !cl.AwaitRunning(0, r.timeout()) {
		incomplete.Add(1)
		return nil, fmt.Errorf("cluster did not start: %v", cl.Log().Errors)
	}

	for _, raw := range c.Ops {
		var o opJ
		if err := json.Unmarshal(raw, &o); err != nil {
			return nil, err
		}
		dbg("op %s", string(raw))
		switch o.Op {
		case "feed":
			if o.Split < 0 {
				for s := 0; s < sc.NumSplits(); s++ {
					sc.Allow(s, o.N)
				}
			} else if o.Split < sc.NumSplits() {
				sc.Allow(o.Split, o.N)
			}
		case "drain":
			if r.running() {
				if !r.wait(func(l *clusterlib.Log) bool { return r.readAllCond()(l) && r.drainedCond()(l) }) {
					r.tags["drain-timeout"] = true
				}
			}
		case "fire":
			cl.FireTimers()
		case "ckpt":
			r.checkpoint(&o)
		case "outage":
			if !timersOn {
				r.outage(&o)
			}
		case "advance": // event time moves on: markers into every split, every runner sends a watermark after reading its marker
			if timersOn && r.running() {
				// everything read so far is applied first: the operator handles a watermark at once but keeps records in its
				// pending batch, so a watermark would overtake them and their timers would be dropped as late (docs/C01.md)
				// If that cannot be established the op is skipped altogether: a bounded wait must never decide that "everything
				// is applied" (a watermark sent too early makes on-time timers late, see "False alarms / flakes").
				if !r.wait(func(l *clusterlib.Log) bool { return r.readAllCond()(l) && r.drainedCond()(l) }) {
					r.tags["advance-skipped"] = true
					break
				}
				sc.Advance()
				if !r.wait(r.readAllCond()) {
					r.tags["advance-tick-skipped"] = true // the markers are in; the next advance sends the watermarks
					break
				}
				if d, _ := cl.TickWatermarksTimed(); d > 50*time.Millisecond {
					r.tags["watermark-tick-took>50ms"] = true
				}
				r.tags["watermark-advanced"] = true
			}
		case "settle": // let pending memtable flushes finish (so that the next checkpoint holds state in table files)
			if r.running() {
				cl.AwaitFlushed(200 * time.Millisecond)
			}
		case "crash":
			gb := len(cl.Log().Invocations)
			r.crash(o.Crash)
			_ = gb
		}
	}

	dbg("finale")
	// finale: let the run finish; if the cluster is wedged (e.g. all workers died), restart everything like a supervisor would
	sc.AllowAll()
	completed := false
	for attempt := 0; attempt < 2 && !completed; attempt++ {
		r.stalled = false
		allApplied := func(l *clusterlib.Log) bool { return r.readAllCond()(l) && r.drainedCond()(l) }
		ok := r.running() && r.finalWait(func(l *clusterlib.Log) bool { return allApplied(l) || !r.running() }) && r.running()
		if ok && timersOn {
			ok = r.fireRemainingTimers()
		}
		if ok {
			// probes: one per key, appended now that everything else has been applied
			for _, k := range keyList {
				sc.Append(k%sc.NumSplits(), clusterlib.Record{ID: uint32(1000000 + attempt*1000 + k), Key: keyBytes(k), Probe: true})
			}
			sc.AllowAll()
			ok = r.finalWait(func(l *clusterlib.Log) bool { return allApplied(l) || !r.running() }) && r.running()
		}
		if ok {
			completed = true
			break
		}
		if attempt == 1 {
			break
		}
		r.tags["wedged-restarted"] = true
		r.stalled = false
		gb := cl.Generation()
		if err := cl.RestartJob(r.w); err != nil {
			r.notes = append(r.notes, "RestartJob: "+err.Error())
			break
		}
		cl.StartWorkers(r.w)
		rt := 20 * time.Second
		if incomplete.Load() >= 4 {
			rt = shortTimeout
		}
		if !cl.AwaitRunning(gb, rt) {
			break
		}
	}
	if !completed {
		incomplete.Add(1)
	}

	l := cl.Log()
	// ---- the Gallina term
	var sb strings.Builder
	sb.WriteString("(Check_cluster.Case ")
	var spT, timerT []string
	for si := 0; si < sc.NumSplits(); si++ {
		var rs []string
		for _, rc := range sc.Records(si) {
			if rc.Probe {
				continue
			}
			k, ok := keyIdx[string(rc.Key)]
			if !ok || rc.Marker {
				k = 99 // time marker: occupies a position, belongs to no key (Check_cluster.marker_key)
			}
			rs = append(rs, hx.CoqPair(hx.CoqN(uint64(rc.ID)), hx.CoqN(uint64(k))))
			if rc.Timer > 0 {
				timerT = append(timerT, hx.CoqPair(hx.CoqN(uint64(rc.ID)), hx.CoqN(uint64(rc.Timer))))
			}
		}
		spT = append(spT, hx.CoqList(rs, "N * N"))
	}
	sb.WriteString(hx.CoqList(spT, "list (N * N)") + "\n  ")
	nl := func(xs []int) string {
		var s []string
		for _, x := range xs {
			if x < 0 {
				x = 999999
			}
			s = append(s, hx.CoqN(uint64(x)))
		}
		return hx.CoqList(s, "N")
	}
	type tl struct {
		seq uint64
		t   string
	}
	var tls []tl
	for _, p := range l.Published {
		if p.Done {
			tls = append(tls, tl{p.Seq, fmt.Sprintf("Check_cluster.TPubDone %s", hx.CoqN(p.ID))})
		} else {
			tls = append(tls, tl{p.Seq, fmt.Sprintf("Check_cluster.TPubStart %s %s %s", hx.CoqN(p.ID), nl(p.Positions), nl(p.States))})
		}
	}
	for _, rs := range l.Restores {
		tls = append(tls, tl{rs.Seq, fmt.Sprintf("Check_cluster.TRestore %s %s %s", hx.CoqN(uint64(rs.Gen)), hx.CoqBool(rs.HasCheckpoint), nl(rs.Positions))})
	}
	for _, d := range l.DeployStarts {
		tls = append(tls, tl{d.Seq, fmt.Sprintf("Check_cluster.TDeploy %s", hx.CoqN(uint64(d.Gen)))})
	}
	sort.SliceStable(tls, func(i, j int) bool { return tls[i].seq < tls[j].seq })
	var tlT []string
	for _, t := range tls {
		tlT = append(tlT, t.t)
	}
	sb.WriteString(hx.CoqList(tlT, "Check_cluster.tev") + "\n  ")
	var invT []string
	nDoomed := 0
	maxGen := int64(0)
	for _, iv := range l.Invocations {
		if iv.Gen > maxGen {
			maxGen = iv.Gen
		}
		var g []string
		for _, e := range iv.Given {
			g = append(g, fmt.Sprintf("(%s, %s, %s)", hx.CoqN(uint64(e.ID)), hx.CoqN(uint64(e.Count)), hx.CoqN(uint64(e.Ord))))
		}
		k, ok := keyIdx[string(iv.Key)]
		if !ok {
			k = 999999
		}
		var fl []string
		for _, f := range iv.Fired {
			ts := f.TS
			if ts < 0 {
				ts = 999999999
			}
			fl = append(fl, hx.CoqPair(hx.CoqN(uint64(ts)), hx.CoqN(uint64(f.Count))))
		}
		// doomed: the worker's storage failed earlier in this generation; the current code fails that batch (its records are
		// dropped by this operator) and the worker stops, but until it has stopped later events are still applied
		doomed := false
		for _, f := range l.Faults {
			if f.Gen == iv.Gen && f.Worker == iv.Worker && f.Seq < iv.Seq {
				doomed = true
			}
		}
		if doomed {
			nDoomed++
		}
		invT = append(invT, fmt.Sprintf("Check_cluster.Inv %s %s %s %s %s %s %s %s", hx.CoqN(uint64(iv.Gen)), hx.CoqN(uint64(k)), hx.CoqN(uint64(iv.Rec)), hx.CoqBool(iv.Probe), hx.CoqList(g, "N * N * N"), hx.CoqN(uint64(iv.Sum)), hx.CoqList(fl, "N * N"), hx.CoqBool(doomed)))
	}
	sb.WriteString(hx.CoqList(invT, "Check_cluster.inv") + "\n  ")
	ackPos := map[uint64]map[int]int{}
	var ackIDs []uint64
	for _, a := range l.Acks {
		if a.Kind != "sr" || !a.Delivered {
			continue
		}
		if ackPos[a.Ckpt] == nil {
			ackPos[a.Ckpt] = map[int]int{}
			ackIDs = append(ackIDs, a.Ckpt)
		}
		for s, p := range a.Positions {
			ackPos[a.Ckpt][s] = p
		}
	}
	var ackT []string
	for _, id := range ackIDs {
		var ss []int
		for s := range ackPos[id] {
			ss = append(ss, s)
		}
		sort.Ints(ss)
		var ps []string
		for _, s := range ss {
			ps = append(ps, hx.CoqPair(hx.CoqN(uint64(s)), hx.CoqN(uint64(ackPos[id][s]))))
		}
		ackT = append(ackT, hx.CoqPair(hx.CoqN(id), hx.CoqList(ps, "N * N")))
	}
	sb.WriteString(hx.CoqList(ackT, "N * list (N * N)") + "\n  ")
	// survivor: some operator was deployed in two different generations (re-deployed in place)
	survivor := false
	opGens := map[string]string{}
	for _, d := range l.Deploys {
		parts := strings.SplitN(d, ":", 3)
		if len(parts) == 3 {
			if g, ok := opGens[parts[1]]; ok && g != parts[0] {
				survivor = true
			}
			opGens[parts[1]] = parts[0]
		}
	}
	sb.WriteString(hx.CoqBool(completed) + " " + hx.CoqBool(survivor) + "\n  " + hx.CoqList(timerT, "N * N") + ")")

	// ---- tags / non-triviality
	npub := 0
	for _, p := range l.Published {
		if p.Done {
			npub++
		}
	}
	ngen := int(cl.Generation())
	appliedAfterCrash := false
	for _, iv := range l.Invocations {
		if iv.Gen > 1 && !iv.Probe {
			appliedAfterCrash = true
		}
	}
	reapplied := false
	seenRec := map[uint32]int64{}
	for _, iv := range l.Invocations {
		if g, ok := seenRec[iv.Rec]; ok && g != iv.Gen {
			reapplied = true
		}
		seenRec[iv.Rec] = iv.Gen
	}
	var tags []string
	for t := range r.tags {
		tags = append(tags, t)
	}
	if reapplied {
		tags = append(tags, "records-replayed-after-restart")
	}
	restoredFromCkpt := false
	for _, rs := range l.Restores {
		if rs.HasCheckpoint {
			restoredFromCkpt = true
		}
	}
	if restoredFromCkpt {
		tags = append(tags, "restored-from-checkpoint")
	}
	if len(l.Errors) > 0 {
		tags = append(tags, "adapter-errors")
	}
	if survivor {
		tags = append(tags, "survivor-redeployed-in-place")
	}
	if nDoomed > 0 {
		tags = append(tags, "applied-after-storage-fault-before-worker-stopped")
	}
	if timersOn {
		tags = append(tags, "timers-on")
		firedGen := map[string]int64{}
		refired := false
		for _, f := range l.Fires {
			k := fmt.Sprintf("%s/%d", f.Key, f.TS)
			if g, ok := firedGen[k]; ok && g != f.Gen {
				refired = true
			}
			firedGen[k] = f.Gen
			if f.Gen > 1 {
				tags = append(tags, "timer-fired-after-a-restart")
			}
		}
		if len(l.Fires) > 0 {
			tags = append(tags, "timers-fired")
		}
		if refired {
			tags = append(tags, "timer-fired-again-after-rollback")
		}
	}
	tags = append(tags, fmt.Sprintf("generations=%d", min(ngen, 5)), fmt.Sprintf("published=%d", min(npub, 4)), fmt.Sprintf("workers=%d", w))
	if !completed {
		tags = append(tags, "NOT-COMPLETED")
	}
	sort.Strings(tags)
	tags = slices.Compact(tags)
	errs := l.Errors
	if len(errs) > 6 {
		errs = errs[:6]
	}
	obs := map[string]any{"completed": completed, "generations": ngen, "published": npub, "invocations": len(l.Invocations),
		"errors": errs, "notes": r.notes, "restores": l.Restores, "fires": firesOf(l)}
	return &hx.Result{Term: sb.String(), Nontrivial: appliedAfterCrash && npub > 0, Tags: tags, Observed: obs}, nil
}

// ---------------------------------------------------------------- generation

func genSplits(r *hx.Rand, nsplits, maxPer, nkeys int) [][]recJ {
	id := uint32(1)
	out := make([][]recJ, nsplits)
	for s := range out {
		n := r.Range(2, maxPer)
		for i := 0; i < n; i++ {
			out[s] = append(out[s], recJ{ID: id, Key: r.Intn(nkeys)})
			id++
		}
	}
	return out
}

// partial kills (a subset of the workers dies, the job and the other workers survive and are re-deployed in place) hit
// the known finding code 101 (docs/C01.md "survivor redeploy"). They are generated only with VERIF_C01_PARTIAL=1: the old
// DKV that a re-deployed operator leaves open keeps running in the engine process and can panic in a background goroutine
// ("file not found" in sst.loadFooter, D11) at any later time, which kills the process and cannot be attributed to a case.
// corpus/cluster-findings/c01-survivor-redeploy.json replays the finding (bin/check C01 --replay).
var partialKills = os.Getenv("VERIF_C01_PARTIAL") != ""

func genCrash(r *hx.Rand, w int, allowPartial bool) *crashJ {
	cr := &crashJ{}
	switch {
	case r.Chance(6, 10):
		cr.Job = true
		cr.Workers = r.Range(1, 3)
		if r.Chance(1, 2) {
			cr.Workers = w
		}
	default:
		if allowPartial && w > 1 && r.Chance(1, 2) {
			cr.Kill = []int{r.Intn(w)}
		}
		cr.Notice = hx.Pick(r, []string{"expire", "dereg"})
	}
	return cr
}

func genCase(r *hx.Rand, i int, tier string) *hx.Case {
	partialKills := partialKills
	w := r.Range(1, 3)
	if partialKills {
		w = r.Range(2, 3)
	}
	nsplits := r.Range(1, 4)
	if r.Chance(1, 2) {
		nsplits = r.Range(3, 4)
	}
	maxPer := 9
	if tier == "thorough" {
		maxPer = 14
	}
	nkeys := r.Range(1, 5)
	outageTemplate := i%4 == 1
	if outageTemplate || r.Chance(1, 3) { // hot keys: the same few keys (their summary entries) are rewritten across several memtable flushes
		nkeys = r.Range(1, 2)
		maxPer += 5
	}
	splits := genSplits(r, nsplits, maxPer, nkeys)
	kg := hx.Pick(r, []int{1, 2, 3, 4, 8, 16})
	if kg < w && r.Chance(3, 4) {
		kg = w + r.Intn(4)
	}
	// (no timers in the storage-outage template: the timer store turns a failed scan into a panic in the operator's own
	// goroutine - in production that is just another worker crash, here it would take the engine process down)
	timersOn := nsplits >= 3 && !outageTemplate // every runner of every generation (at most 3 workers) then reads a split, so its watermark moves
	params := map[string]any{"mode": "c01", "timers": timersOn, "workers": w, "kg": kg, "op_batch": hx.Pick(r, []int{1, 2, 3, 5}),
		"sr_batch": hx.Pick(r, []int{1, 2, 4}), "read_batch": hx.Pick(r, []int{1, 2, 3}), "splits": splits}
	var ops []json.RawMessage
	curW := w
	feed := func() {
		if r.Chance(1, 3) {
			ops = append(ops, hx.Op(opJ{Op: "feed", Split: -1, N: r.Range(1, 4)}))
		} else {
			for k := r.Range(1, 3); k > 0; k-- {
				ops = append(ops, hx.Op(opJ{Op: "feed", Split: r.Intn(nsplits), N: r.Range(1, 5)}))
			}
		}
	}
	perm := func() []int {
		p := make([]int, 2*3)
		for i := range p {
			p[i] = r.Intn(6)
		}
		return p
	}
	phases := r.Range(2, 5)
	if outageTemplate {
		// a lot of state of few keys, flushed to table files, checkpointed; restart from it (the state now lives in tables);
		// then a transient storage outage that begins somewhere inside the scans of the restored state
		ops = append(ops, hx.Op(opJ{Op: "feed", Split: -1, N: r.Range(5, 9)}), hx.Op(opJ{Op: "drain"}), hx.Op(opJ{Op: "settle"}), hx.Op(opJ{Op: "ckpt", Perm: perm()}),
			hx.Op(opJ{Op: "crash", Crash: &crashJ{Job: true, Workers: curW}}),
			hx.Op(opJ{Op: "outage", Worker: r.Intn(3), After: r.Intn(90), Len: r.Range(3, 60), N: r.Range(2, 4), Ckpt: r.Chance(1, 2)}))
		phases = r.Range(1, 3)
	}
	for p := 0; p < phases; p++ {
		feed()
		if timersOn && r.Chance(1, 2) {
			ops = append(ops, hx.Op(opJ{Op: "advance"}))
		}
		if r.Chance(1, 2) {
			ops = append(ops, hx.Op(opJ{Op: "drain"}))
		}
		switch r.Intn(8) {
		case 7: // restart from a checkpoint (state now lives in table files), then a transient storage outage while it is read
			ops = append(ops, hx.Op(opJ{Op: "drain"}), hx.Op(opJ{Op: "settle"}), hx.Op(opJ{Op: "ckpt", Perm: perm()}))
			ops = append(ops, hx.Op(opJ{Op: "crash", Crash: &crashJ{Job: true, Workers: curW}}))
			if timersOn {
				break
			}
			ops = append(ops, hx.Op(opJ{Op: "outage", Worker: r.Intn(3), After: r.Intn(60), Len: r.Range(2, 40), N: r.Range(1, 4), Ckpt: r.Chance(1, 2)}))
		case 6: // checkpoint fully acknowledged, publication in flight while all workers are lost and re-deployed
			ops = append(ops, hx.Op(opJ{Op: "ckpt", Perm: perm(), PubHold: hx.Pick(r, []string{"before", "deploy", "deploy", "after"}),
				Crash: &crashJ{Notice: hx.Pick(r, []string{"expire", "dereg"})}}))
		case 0, 1: // checkpoint, all acks permuted
			ops = append(ops, hx.Op(opJ{Op: "ckpt", Perm: perm()}))
		case 2: // crash during the checkpoint
			cr := genCrash(r, curW, partialKills)
			ops = append(ops, hx.Op(opJ{Op: "ckpt", Perm: perm(), CrashAfter: r.Intn(2 * curW), Crash: cr}))
			if cr.Job {
				curW = cr.Workers
			}
		case 3, 4: // crash (before the next checkpoint / right after the last one)
			cr := genCrash(r, curW, partialKills)
			ops = append(ops, hx.Op(opJ{Op: "crash", Crash: cr}))
			if cr.Job {
				curW = cr.Workers
			}
		case 5: // checkpoint, more input in flight, crash
			ops = append(ops, hx.Op(opJ{Op: "ckpt", Perm: perm()}))
			feed()
			cr := genCrash(r, curW, partialKills)
			ops = append(ops, hx.Op(opJ{Op: "crash", Crash: cr}))
			if cr.Job {
				curW = cr.Workers
			}
		}
	}
	return &hx.Case{Name: fmt.Sprintf("c01-%d", i), Params: params, Ops: ops}
}

func (eng) Generate(mode, tier string, r *hx.Rand) []*hx.Case {
	n := 160
	if tier == "thorough" {
		n = 1500
	}
	var cs []*hx.Case
	for i := 0; i < n; i++ {
		// hx.NewRand(seed) and hx.NewRand(seed+1) walk the same splitmix sequence one step apart, so r.Fork() alone would
		// make case i of seed k equal to case i+1 of seed k-1; mixing the index in keeps the seeds' case sets apart
		cs = append(cs, genCase(hx.NewRand(r.U64()^(uint64(i+1)*0xD6E8FEB86659FD93)), i, tier))
	}
	return cs
}

var procDirOnce struct {
	sync.Once
	dir string
}

func procDir() string {
	procDirOnce.Do(func() {
		base := "/dev/shm"
		if _, err := os.Stat(base); err != nil {
			base = os.TempDir()
		}
		// remove directories left behind by engine processes that no longer exist
		if old, err := filepath.Glob(filepath.Join(base, "verif-cluster-*")); err == nil {
			for _, d := range old {
				var pid int
				if _, err := fmt.Sscanf(filepath.Base(d), "verif-cluster-%d", &pid); err == nil && pid > 0 {
					if _, err := os.Stat(fmt.Sprintf("/proc/%d", pid)); err != nil {
						os.RemoveAll(d)
					}
				}
			}
		}
		procDirOnce.dir = filepath.Join(base, fmt.Sprintf("verif-cluster-%d", os.Getpid()))
		os.MkdirAll(procDirOnce.dir, 0o755)
	})
	return procDirOnce.dir
}

func main() {
	hx.Main(eng{})
	os.RemoveAll(procDir())
}
