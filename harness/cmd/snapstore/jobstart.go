package main

// case kind `jobstart` of mode c13: the real jobs.New over a real LocalDirectory that holds the snapshot files of
// an id set, behind a StorageLocation whose reads of snapshot files can fail. Observed: New refuses (error or
// panic) or the checkpoint the job will deploy from (jobs.VerifCurrentCheckpointID, what Job.start reads).

import (
	"encoding/json"
	"errors"
	"fmt"
	"os"
	"path/filepath"

	"reduction.dev/reduction/clocks"
	"reduction.dev/reduction/config"
	"reduction.dev/reduction/jobs"
	"reduction.dev/reduction/storage/locations"
	"verifharness/hx"
)

// faultLoc: List works; Read of a *.snapshot file fails as configured.
type faultLoc struct {
	locations.StorageLocation
	fault int // 0 none, 1 not-found, 2 another error
	reads int
}

func (f *faultLoc) Read(path string) ([]byte, error) {
	if filepath.Ext(path) == ".snapshot" {
		f.reads++
		switch f.fault {
		case 1:
			return nil, locations.ErrNotFound
		case 2:
			return nil, errors.New("injected read error")
		}
	}
	return f.StorageLocation.Read(path)
}

func execJobStart(c *hx.Case) (*hx.Result, error) {
	var o op13
	if err := json.Unmarshal(c.Ops[0], &o); err != nil {
		return nil, err
	}
	tmp, err := os.MkdirTemp("", "snapstore-jobstart-")
	if err != nil {
		return nil, err
	}
	defer os.RemoveAll(tmp)
	dir := locations.NewLocalDirectory(tmp)
	for _, id := range o.IDs {
		if err := seedFile(dir, id); err != nil {
			return nil, err
		}
	}
	loc := &faultLoc{StorageLocation: dir, fault: o.I}
	refused, some, cur := false, false, uint64(0)
	func() {
		defer func() {
			if p := recover(); p != nil {
				refused = true
			}
		}()
		job, err := jobs.New(&jobs.NewParams{
			JobConfig: &config.Config{WorkerCount: 1, KeyGroupCount: 8},
			Clock:     clocks.NewFrozenClock(),
			Store:     loc,
			ErrChan:   make(chan error, 4),
		})
		if err != nil {
			refused = true
			return
		}
		cur = job.VerifCurrentCheckpointID()
		some = cur != 0
	}()
	tags := []string{"jobstart", fmt.Sprintf("fault=%d", o.I), fmt.Sprintf("files=%d", min(len(o.IDs), 4))}
	return &hx.Result{Term: fmt.Sprintf("JobStart %s %d %s %s", nlist(o.IDs), o.I, hx.CoqBool(refused), optN(some, cur)),
		Nontrivial: len(o.IDs) > 0 && o.I != 0, Tags: tags,
		Observed: map[string]any{"refused": refused, "starts_from": cur, "snapshot_reads": loc.reads}}, nil
}

func genJobStart(r *hx.Rand) *hx.Case {
	n := r.Intn(4)
	seen := map[uint64]bool{}
	var ids []uint64
	for len(ids) < n {
		id := uint64(r.Range(1, 40))
		if r.Chance(1, 5) {
			id = randID(r)
		}
		if id == 0 || seen[id] {
			continue
		}
		seen[id] = true
		ids = append(ids, id)
	}
	return mkCase("c13", "jobstart", []any{op13{K: "jobstart", IDs: ids, I: r.Intn(3)}})
}
