package main

import (
	"encoding/json"
	"math"

	"verifharness/hx"
)

func mkCase(mode, name string, ops []any) *hx.Case {
	raw := make([]json.RawMessage, len(ops))
	for i, o := range ops {
		raw[i] = hx.Op(o)
	}
	return &hx.Case{Name: name, Params: map[string]any{"mode": mode}, Ops: raw}
}

// ---------- c12 ----------

func randAssembly(r *hx.Rand) (ops, srs []uint64) {
	nops, nsrs := r.Range(1, 4), r.Range(1, 3)
	if r.Chance(1, 25) {
		nops = 0
	}
	if r.Chance(1, 25) {
		nsrs = 0
	}
	for i := 0; i < nops; i++ {
		ops = append(ops, uint64(i+1))
	}
	for i := 0; i < nsrs; i++ {
		srs = append(srs, uint64(i+1))
	}
	if len(ops) > 0 && r.Chance(1, 12) { // the same name twice in the assembly list
		ops = append(ops, ops[0])
	}
	if len(srs) > 0 && r.Chance(1, 12) {
		srs = append(srs, srs[0])
	}
	hx.Shuffle(r, ops)
	hx.Shuffle(r, srs)
	return
}

func randStates(r *hx.Rand) []uint64 {
	n := r.Intn(4)
	st := make([]uint64, n)
	for i := range st {
		st[i] = uint64(r.Range(0, 300))
		if r.Chance(1, 10) {
			st[i] = uint64(r.U64() >> 33)
		}
	}
	return st
}

func genC12(r *hx.Rand, length int) *hx.Case {
	var ops []any
	var curOps, curSrs []uint64
	pl := uint64(0)
	var todo []op12 // acks still owed for the pending checkpoint
	if r.Chance(1, 3) {
		ops = append(ops, op12{K: "lr", B: true}) // this process will die before its cleanup reaches the storage
	}
	for len(ops) < length {
		if r.Chance(1, 40) {
			ops = append(ops, op12{K: "lr", B: r.Bool()})
		}
		if r.Chance(1, 30) {
			ops = append(ops, op12{K: "rf", I: r.Intn(4)}) // start from a savepoint taken earlier (plain restart if none)
			todo = nil
		}
		if r.Chance(1, 25) {
			ops = append(ops, op12{K: "fw"}) // the next snapshot write fails
		}
		if r.Chance(1, 35) {
			ops = append(ops, op12{K: "ab"})
			if r.Bool() {
				todo = nil
			}
		}
		x := r.Intn(100)
		switch {
		case len(todo) == 0 && x < 55, x < 4:
			curOps, curSrs = randAssembly(r)
			k := "ck"
			if r.Chance(1, 5) {
				k = "sp"
			}
			ops = append(ops, op12{K: k, Ops: curOps, Srs: curSrs})
			if len(todo) == 0 {
				seenO, seenS := map[uint64]bool{}, map[uint64]bool{}
				for _, o := range curOps {
					if !seenO[o] {
						seenO[o] = true
						pl++
						todo = append(todo, op12{K: "ao", Op: o, Pl: pl})
					}
				}
				for _, s := range curSrs {
					if !seenS[s] {
						seenS[s] = true
						todo = append(todo, op12{K: "as", Op: s, St: randStates(r)})
					}
				}
				hx.Shuffle(r, todo)
			}
		case x < 8:
			ops = append(ops, op12{K: "sp", Ops: curOps, Srs: curSrs}) // join / second savepoint
		case x < 13:
			ops = append(ops, op12{K: "rs"})
			todo = nil
			if r.Chance(1, 3) {
				ops = append(ops, op12{K: "lr", B: true})
			}
		case x < 22: // duplicate of an ack already sent (or of any node), same id
			if r.Bool() {
				ops = append(ops, op12{K: "as", Op: uint64(r.Range(1, 3)), St: randStates(r)})
			} else {
				pl++
				ops = append(ops, op12{K: "ao", Op: uint64(r.Range(1, 4)), Pl: pl})
			}
		case x < 30: // stale or future id
			d := hx.Pick(r, []int{-1, -1, 1, -2, 5})
			if r.Bool() {
				ops = append(ops, op12{K: "as", D: d, Op: uint64(r.Range(1, 3)), St: randStates(r)})
			} else {
				pl++
				ops = append(ops, op12{K: "ao", D: d, Op: uint64(r.Range(1, 4)), Pl: pl})
			}
		case x < 37: // unknown sender
			if r.Bool() {
				ops = append(ops, op12{K: "as", Op: uint64(r.Range(7, 9)), St: randStates(r)})
			} else {
				pl++
				ops = append(ops, op12{K: "ao", Op: uint64(r.Range(7, 9)), Pl: pl})
			}
		default:
			if len(todo) > 0 {
				ops = append(ops, todo[0])
				todo = todo[1:]
			} else {
				pl++
				ops = append(ops, op12{K: "ao", Op: 1, Pl: pl}) // ack with nothing pending
			}
		}
	}
	return mkCase("c12", "history", ops)
}

// genGenerations: several store generations, each publishing a few checkpoints while its Remove calls are (mostly)
// lost, so that every restart finds obsolete snapshot files next to the newest one; after each restart a new
// checkpoint is created (its id must exceed everything ever published).
func genGenerations(r *hx.Rand) *hx.Case {
	var ops []any
	pl := uint64(0)
	gens := r.Range(1, 3)
	for g := 0; g < gens; g++ {
		if r.Chance(5, 6) {
			ops = append(ops, op12{K: "lr", B: true})
		}
		for k := r.Range(1, 4); k > 0; k-- {
			nops, nsrs := r.Range(1, 2), r.Range(1, 2)
			var os, ss []uint64
			for i := 1; i <= nops; i++ {
				os = append(os, uint64(i))
			}
			for i := 1; i <= nsrs; i++ {
				ss = append(ss, uint64(i))
			}
			kind := "ck"
			if r.Chance(1, 3) {
				kind = "sp"
			}
			ops = append(ops, op12{K: kind, Ops: os, Srs: ss})
			var acks []op12
			for _, o := range os {
				pl++
				acks = append(acks, op12{K: "ao", Op: o, Pl: pl})
			}
			for _, s := range ss {
				acks = append(acks, op12{K: "as", Op: s, St: randStates(r)})
			}
			hx.Shuffle(r, acks)
			if r.Chance(1, 4) {
				acks = append([]op12{{K: "as", D: -1, Op: 1, St: randStates(r)}}, acks...)
			}
			if k == 1 && r.Chance(1, 4) {
				acks = acks[:len(acks)-1] // the generation dies with a checkpoint in progress
			}
			for _, a := range acks {
				ops = append(ops, a)
			}
			if r.Chance(1, 10) {
				ops = append(ops, op12{K: "lr", B: r.Bool()})
			}
			if r.Chance(1, 6) {
				ops = append(ops, op12{K: "fw"})
			}
		}
		if r.Chance(2, 5) {
			ops = append(ops, op12{K: "rf", I: r.Intn(3)})
		} else {
			ops = append(ops, op12{K: "rs"})
		}
	}
	ops = append(ops, op12{K: "ck", Ops: []uint64{1}, Srs: []uint64{1}})
	pl++
	ops = append(ops, op12{K: "ao", Op: 1, Pl: pl}, op12{K: "as", Op: 1, St: randStates(r)})
	if r.Bool() {
		ops = append(ops, op12{K: "rs"}, op12{K: "ck", Ops: []uint64{1}, Srs: []uint64{1}})
	}
	return mkCase("c12", "generations", ops)
}

// ---------- c13 ----------

func interestingIDs(r *hx.Rand) []uint64 {
	ids := []uint64{0, 1, 2, 3, 4, 5, 6, 7, 8, 15, 16, 17, 63, 64, 65, 255, 256, 4095, 4096, 65535, 65536,
		1<<32 - 1, 1 << 32, 1<<48 + 3, 1<<63 - 1, 1 << 63, math.MaxUint64 - 1, math.MaxUint64}
	return ids
}

func randID(r *hx.Rand) uint64 {
	switch r.Intn(6) {
	case 0:
		return uint64(r.Range(1, 70))
	case 1:
		return uint64(r.Range(1, 5000))
	case 2:
		return r.U64() >> uint(r.Intn(64))
	case 3: // just around a 6-bit boundary of the encoded name
		return (uint64(r.Range(1, 1<<16)) << 4) + uint64(r.Range(0, 3)) - 2
	case 4:
		return math.MaxUint64 - uint64(r.Intn(1000))
	default:
		return uint64(r.Range(1, 300))
	}
}

func genLoad(r *hx.Rand) *hx.Case {
	n := r.Range(1, 5)
	seen := map[uint64]bool{}
	var ids []uint64
	b := randID(r)
	for len(ids) < n {
		var id uint64
		if r.Chance(2, 3) { // neighbours: what a crash during cleanup leaves behind
			id = b + uint64(r.Intn(4))
		} else {
			id = randID(r)
		}
		if id == 0 || seen[id] {
			b = randID(r)
			continue
		}
		seen[id] = true
		ids = append(ids, id)
	}
	return mkCase("c13", "load", []any{op13{K: "load", IDs: ids}})
}

// genRewind: a first run takes a savepoint and goes on for k checkpoints with large snapshots; the job is then
// started again FROM THE SAVEPOINT on the same storage and reaches the same ids with smaller snapshots (the files
// job-<id>.snapshot of the first run are rewritten with shorter content); then a plain restart.
func genRewind(r *hx.Rand) *hx.Case {
	var ops []any
	base := uint64(0)
	if r.Chance(1, 4) {
		base = uint64(r.Range(1, 40))
	}
	ops = append(ops, op13{K: "base", ID: base})
	for i := r.Intn(2); i > 0; i-- {
		ops = append(ops, op13{K: "pub", N: r.Range(2, 6)}, op13{K: "w"}, op13{K: "r"})
	}
	ops = append(ops, op13{K: "pub", N: r.Range(2, 6), Sp: true}, op13{K: "w"}, op13{K: "r"})
	k := r.Range(0, 3)
	for i := 0; i < k; i++ {
		ops = append(ops, op13{K: "pub", N: r.Range(3, 7), Sp: r.Chance(1, 6)}, op13{K: "w"})
		if r.Chance(3, 4) {
			ops = append(ops, op13{K: "r"})
		}
		if r.Chance(1, 3) {
			ops = append(ops, op13{K: "t"})
		}
	}
	ops = append(ops, op13{K: "rw", I: r.Intn(2)})
	m := r.Range(1, k+2)
	for i := 0; i < m; i++ {
		ops = append(ops, op13{K: "pub", N: r.Intn(2)}, op13{K: "w"})
		if r.Chance(3, 4) {
			ops = append(ops, op13{K: "r"})
		}
		if r.Chance(1, 3) {
			ops = append(ops, op13{K: "t"})
		}
	}
	ops = append(ops, op13{K: "crash"})
	if r.Bool() {
		ops = append(ops, op13{K: "pub", N: r.Intn(3)}, op13{K: "w"}, op13{K: "crash"})
	}
	return mkCase("c13", "rewind", ops)
}

func genSched(r *hx.Rand, length int) *hx.Case { return genSchedFor("c13", r, length) }

// genOverlap: writes stall, several publications complete meanwhile, the stalled ones return late
func genOverlap(r *hx.Rand) *hx.Case {
	ops := []any{op13{K: "base", ID: uint64(r.Intn(3) * r.Range(1, 50))}}
	if r.Bool() {
		ops = append(ops, op13{K: "pub", N: 1}, op13{K: "w"})
	}
	for g := r.Range(1, 3); g > 0; g-- {
		k := r.Range(2, 4)
		for i := 0; i < k; i++ {
			ops = append(ops, op13{K: "pub", N: r.Intn(3)})
		}
		for i := k; i > 0; i-- {
			idx := r.Intn(i)
			if r.Chance(2, 3) {
				idx = i - 1 // newest first: the older writes return late
			}
			if r.Chance(1, 6) {
				ops = append(ops, op13{K: "wf", I: idx})
			} else {
				ops = append(ops, op13{K: "w", I: idx})
			}
			if r.Chance(1, 3) {
				ops = append(ops, op13{K: "r", I: r.Intn(2)})
			}
			if r.Chance(1, 4) {
				ops = append(ops, op13{K: "t"})
			}
		}
		if r.Chance(1, 3) {
			ops = append(ops, op13{K: "crash"})
		}
	}
	ops = append(ops, op13{K: "crash"})
	return mkCase("c12", "overlap", ops)
}

func genSchedFor(mode string, r *hx.Rand, length int) *hx.Case {
	var ops []any
	base := uint64(0)
	if r.Chance(2, 3) {
		base = randID(r)
		if base > math.MaxUint64-64 {
			base = math.MaxUint64 - 64
		}
	}
	ops = append(ops, op13{K: "base", ID: base})
	inflight, removes := 0, 0
	for len(ops) < length {
		x := r.Intn(100)
		switch {
		case x < 30 && inflight < 4:
			ops = append(ops, op13{K: "pub", N: r.Intn(4)})
			inflight++
		case x < 60:
			ops = append(ops, op13{K: "w", I: r.Intn(4)})
			if inflight > 0 {
				inflight--
				removes++
			}
		case x < 63:
			ops = append(ops, op13{K: "wf", I: r.Intn(4)}) // a parked write returns an error
			if inflight > 0 {
				inflight--
			}
		case x < 75:
			ops = append(ops, op13{K: "r", I: r.Intn(3)})
		case x < 90:
			ops = append(ops, op13{K: "t"})
		case x < 96:
			ops = append(ops, op13{K: "crash"})
			inflight, removes = 0, 0
		case x < 97:
			ops = append(ops, op13{K: "rw", I: r.Intn(3)}) // start from a savepoint (plain restart if there is none)
			inflight, removes = 0, 0
		default:
			ops = append(ops, op13{K: "pub", N: r.Intn(3), Sp: r.Chance(1, 3)}, op13{K: "pub", N: 5}, op13{K: "w", I: 1}, op13{K: "w", I: 0})
			inflight += 2
		}
	}
	ops = append(ops, op13{K: "crash"})
	return mkCase(mode, "sched", ops)
}

func (eng) Generate(mode, tier string, r *hx.Rand) []*hx.Case {
	var cs []*hx.Case
	thorough := tier == "thorough"
	switch mode {
	case "c12":
		n := 700
		if thorough {
			n = 6000
		}
		for i := 0; i < n; i++ {
			l := r.Range(4, 30)
			if r.Chance(1, 10) {
				l = r.Range(30, 80)
			}
			cs = append(cs, genC12(r, l))
		}
		ng := 200
		if thorough {
			ng = 1500
		}
		for i := 0; i < ng; i++ {
			cs = append(cs, genGenerations(r))
		}
		nov := 100
		if thorough {
			nov = 800
		}
		for i := 0; i < nov; i++ {
			cs = append(cs, genOverlap(r))
		}
	case "c13":
		for _, id := range interestingIDs(r) {
			cs = append(cs, mkCase("c13", "seg", []any{op13{K: "seg", ID: id}}))
		}
		nseg, nload, nsched := 300, 250, 380
		if thorough {
			nseg, nload, nsched = 3000, 2500, 4000
		}
		for i := 0; i < nseg; i++ {
			cs = append(cs, mkCase("c13", "seg", []any{op13{K: "seg", ID: randID(r)}}))
		}
		// every pair and triple of small neighbouring ids
		for a := uint64(1); a <= 12; a++ {
			for b := a + 1; b <= a+3; b++ {
				cs = append(cs, mkCase("c13", "load", []any{op13{K: "load", IDs: []uint64{a, b}}}))
			}
		}
		for i := 0; i < nload; i++ {
			cs = append(cs, genLoad(r))
		}
		for i := 0; i < nsched; i++ {
			cs = append(cs, genSched(r, r.Range(5, 24)))
		}
		nrw := 120
		if thorough {
			nrw = 1200
		}
		for i := 0; i < nrw; i++ {
			cs = append(cs, genRewind(r))
		}
		nret := 40
		if thorough {
			nret = 400
		}
		for i := 0; i < nret; i++ {
			cs = append(cs, genRetain(r))
		}
		for i := 0; i < 25; i++ {
			own, sib := genLoad(r), genLoad(r)
			var a, b op13
			json.Unmarshal(own.Ops[0], &a)
			json.Unmarshal(sib.Ops[0], &b)
			if r.Chance(1, 5) {
				a.IDs = nil
			}
			cs = append(cs, mkCase("c13", "loads3", []any{op13{K: "loads3", IDs: a.IDs, Sib: b.IDs}}))
		}
		njs := 40
		if thorough {
			njs = 300
		}
		for i := 0; i < njs; i++ {
			cs = append(cs, genJobStart(r))
		}
	}
	return cs
}
