package main

// A gating / crashing StorageLocation, an in-memory StorageLocation, the quiescence barrier and the harness's own
// (implementation-independent) decoders of snapshot file names and contents.

import (
	"bytes"
	"encoding/base64"
	"encoding/binary"
	"errors"
	"fmt"
	"io"
	"iter"
	"math"
	"path/filepath"
	"runtime"
	"sort"
	"strings"
	"sync"
	"time"

	"google.golang.org/protobuf/proto"
	"reduction.dev/reduction/proto/snapshotpb"
	"reduction.dev/reduction/storage/locations"
)

// ---------- quiescence barrier ----------

// quiesce returns when every goroutine other than the caller is blocked on something only another goroutine of
// this process can release (channel, mutex, select, condition variable). It is a barrier, not a sleep: when it
// returns nothing can happen until the caller acts, so "a storage call is parked", "a notification is pending",
// "nothing was published" are facts ordered after everything the previous step could cause - not the result of
// looking once. Only states on the whitelist of blockedState count as blocked: a goroutine that is running,
// runnable, preempted, in a system call (file I/O, waiting for a cp/mkdir child), in "IO wait" (a pipe of a child
// process whose EOF the netpoller has not delivered yet), asleep on a timer or helping the GC will go on by itself,
// and the barrier keeps waiting for it however long the machine takes.
//
// Timing: the only clock here is the wedge detector (150 s without ever settling => panic, reported by hx as the
// failure of this case; hx's own no-progress detector is 180 s). The short sleep merely keeps the spinning barrier
// from starving child processes on a loaded or single-CPU machine; it changes no observation.
func quiesce() {
	buf := make([]byte, 1<<18)
	start := time.Now()
	for i := 0; ; i++ {
		runtime.Gosched()
		n := runtime.Stack(buf, true)
		if n == len(buf) {
			buf = make([]byte, 2*len(buf))
			continue
		}
		if allBlocked(buf[:n]) {
			// check twice: a goroutine woken by another one between the dump's lines
			runtime.Gosched()
			n = runtime.Stack(buf, true)
			if n < len(buf) && allBlocked(buf[:n]) {
				return
			}
		}
		if i%64 == 63 {
			time.Sleep(100 * time.Microsecond) // pacing only
			if time.Since(start) > 150*time.Second {
				panic("quiesce: goroutines did not settle within 150 s:\n" + string(buf[:min(n, 4000)]))
			}
		}
	}
}

// blockedState: goroutine states (as printed by runtime.Stack) in which a goroutine waits for another goroutine.
func blockedState(st string) bool {
	for _, p := range []string{"chan receive", "chan send", "select", "sync.", "semacquire", "finalizer wait", "cleanup wait",
		"GC worker (idle)", "GC sweep wait", "GC scavenge wait", "force gc (idle)"} {
		if strings.HasPrefix(st, p) {
			return true
		}
	}
	return false
}

func allBlocked(dump []byte) bool {
	first := true
	for _, line := range bytes.Split(dump, []byte("\n")) {
		if !bytes.HasPrefix(line, []byte("goroutine ")) {
			continue
		}
		a := bytes.IndexByte(line, '[')
		b := bytes.IndexByte(line, ']')
		if a < 0 || b < a {
			continue
		}
		if first { // the caller itself
			first = false
			continue
		}
		if !blockedState(string(line[a+1 : b])) {
			return false
		}
	}
	return true
}

// ---------- decoders written independently of the implementation ----------

// idOfSnapshotPath inverts "job-<base64url(be64(2^64-1-id))>.snapshot".
func idOfSnapshotPath(p string) (uint64, bool) {
	base := filepath.Base(p)
	if !strings.HasPrefix(base, "job-") || !strings.HasSuffix(base, ".snapshot") {
		return 0, false
	}
	seg := strings.TrimSuffix(strings.TrimPrefix(base, "job-"), ".snapshot")
	raw, err := base64.RawURLEncoding.DecodeString(seg)
	if err != nil || len(raw) != 8 {
		return 0, false
	}
	return math.MaxUint64 - binary.BigEndian.Uint64(raw), true
}

type entry struct {
	Op, Cid, Pl uint64
}
type snapObs struct {
	ID      uint64   `json:"id"`
	Entries []entry  `json:"entries"`
	Splits  []uint64 `json:"splits"`
}

func tokOfBytes(b []byte) uint64 {
	var v uint64
	for _, c := range b {
		v = v<<8 | uint64(c)
	}
	return v
}
func bytesOfTok(v uint64) []byte {
	var b []byte
	for v > 0 {
		b = append([]byte{byte(v)}, b...)
		v >>= 8
	}
	return b
}

func opName(n uint64) string { return fmt.Sprintf("op-%d", n) }
func srName(n uint64) string { return fmt.Sprintf("sr-%d", n) }

// the operator's DKV checkpoints file: the in-memory location answers a read of it with a document that
// holds the checkpoint id named in the path (what the operator would have saved before acknowledging)
func dkvURI(op, pl, cid uint64) string {
	return fmt.Sprintf("dkv/op-%d/ckpt-%d-c%d", op, pl, cid)
}

func snapOfProto(c *snapshotpb.JobCheckpoint) (*snapObs, error) {
	o := &snapObs{ID: c.Id, Entries: []entry{}, Splits: []uint64{}}
	for _, oc := range c.OperatorCheckpoints {
		var op, op2, pl uint64
		if _, err := fmt.Sscanf(oc.OperatorId, "op-%d", &op); err != nil {
			return nil, fmt.Errorf("operator id %q", oc.OperatorId)
		}
		u := oc.DkvFileUri
		if i := strings.Index(u, "dkv/op-"); i > 0 {
			u = u[i:] // absolute path in the real-directory mode
		}
		if _, err := fmt.Sscanf(u, "dkv/op-%d/ckpt-%d", &op2, &pl); err != nil {
			return nil, fmt.Errorf("dkv uri %q", oc.DkvFileUri)
		}
		o.Entries = append(o.Entries, entry{op, oc.CheckpointId, pl})
	}
	if len(c.SourceCheckpoints) != 1 {
		return nil, fmt.Errorf("%d source checkpoints", len(c.SourceCheckpoints))
	}
	for _, s := range c.SourceCheckpoints[0].SplitStates {
		o.Splits = append(o.Splits, tokOfBytes(s))
	}
	return o, nil
}

func decodeSnapshot(data []byte) (*snapObs, error) {
	var c snapshotpb.JobCheckpoint
	if err := proto.Unmarshal(data, &c); err != nil {
		return nil, err
	}
	return snapOfProto(&c)
}

// ---------- in-memory StorageLocation (listing in byte order of the path, as WalkDir gives inside one directory) ----------

type memLoc struct {
	mu    sync.Mutex
	files map[string][]byte
}

func newMemLoc() *memLoc { return &memLoc{files: map[string][]byte{}} }

func (m *memLoc) Write(path string, r io.Reader) (string, error) {
	data, err := io.ReadAll(r)
	if err != nil {
		return "", err
	}
	m.mu.Lock()
	defer m.mu.Unlock()
	m.files[path] = data
	return path, nil
}
func (m *memLoc) Read(path string) ([]byte, error) {
	m.mu.Lock()
	defer m.mu.Unlock()
	if d, ok := m.files[path]; ok {
		return d, nil
	}
	if strings.HasPrefix(path, "dkv/") || strings.Contains(path, "/dkv/") {
		// a DKV checkpoints document of the checkpoint id named in the path, referencing no further files
		var op, pl, cid uint64
		if i := strings.Index(path, "dkv/op-"); i >= 0 {
			fmt.Sscanf(path[i:], "dkv/op-%d/ckpt-%d-c%d", &op, &pl, &cid)
		}
		return []byte(fmt.Sprintf(`{"checkpoints":[{"id":%d}]}`, cid)), nil
	}
	return nil, locations.ErrNotFound
}
func (m *memLoc) List() iter.Seq2[string, error] {
	m.mu.Lock()
	names := make([]string, 0, len(m.files))
	for k := range m.files {
		names = append(names, k)
	}
	m.mu.Unlock()
	sort.Strings(names)
	return func(yield func(string, error) bool) {
		for _, n := range names {
			if !yield(n, nil) {
				return
			}
		}
	}
}
func (m *memLoc) URI(path string) (string, error) { return path, nil }
func (m *memLoc) Copy(src, dst string) error {
	d, err := m.Read(src)
	if err != nil {
		return err
	}
	m.mu.Lock()
	defer m.mu.Unlock()
	m.files[dst] = d
	return nil
}
func (m *memLoc) Remove(paths ...string) error {
	m.mu.Lock()
	defer m.mu.Unlock()
	for _, p := range paths {
		delete(m.files, p)
	}
	return nil
}

var errInjectedWrite = errors.New("injected write failure")

// ---------- gate ----------

type call struct {
	write   bool
	paths   []string
	ids     []uint64 // decoded snapshot ids of the paths
	data    []byte
	release chan int // relPerform / relDead (store is dead: return without effect) / relFail (return an error)
}

// gate wraps a StorageLocation for ONE store generation. When gated, Write and Remove calls of snapshot files
// park until the harness releases them; everything performed is logged.
type gate struct {
	inner        locations.StorageLocation
	mu           sync.Mutex
	gated        bool
	failNext     bool // ungated mode: the next Write of a snapshot file returns an error
	failedWrites []uint64
	loseRm       bool // Remove calls are observed but never reach the storage (the process dies before they land)
	dead         bool
	writes       []*call
	removes      []*call
	written      []*snapObs // performed snapshot writes, in order
	removed      [][]uint64 // performed Remove calls (decoded ids), in order
	spCopies     []string   // destinations of job.savepoint copies
}

func idsOfPaths(paths []string) []uint64 {
	ids := make([]uint64, 0, len(paths))
	for _, p := range paths {
		if id, ok := idOfSnapshotPath(p); ok {
			ids = append(ids, id)
		} else {
			ids = append(ids, math.MaxUint64) // a path that is not a snapshot file name
		}
	}
	return ids
}

const (
	relDead = iota
	relPerform
	relFail
)

func (g *gate) park(c *call) int {
	g.mu.Lock()
	if g.dead {
		g.mu.Unlock()
		return relDead
	}
	if !g.gated {
		r := relPerform
		if c.write && g.failNext {
			g.failNext = false
			r = relFail
		}
		g.mu.Unlock()
		return r
	}
	c.release = make(chan int)
	if c.write {
		g.writes = append(g.writes, c)
	} else {
		g.removes = append(g.removes, c)
	}
	g.mu.Unlock()
	return <-c.release
}

func (g *gate) Write(path string, r io.Reader) (string, error) {
	data, err := io.ReadAll(r)
	if err != nil {
		return "", err
	}
	if filepath.Ext(path) != ".snapshot" {
		return g.inner.Write(path, bytes.NewReader(data))
	}
	c := &call{write: true, paths: []string{path}, ids: idsOfPaths([]string{path}), data: data}
	switch g.park(c) {
	case relDead:
		return path, nil // dead store: no effect on storage
	case relFail:
		g.mu.Lock()
		g.failedWrites = append(g.failedWrites, c.ids[0])
		g.mu.Unlock()
		return "", errInjectedWrite
	}
	uri, err := g.inner.Write(path, bytes.NewReader(data))
	if err == nil {
		if so, derr := decodeSnapshot(data); derr == nil {
			g.mu.Lock()
			g.written = append(g.written, so)
			g.mu.Unlock()
		} else {
			panic("harness: written snapshot does not decode: " + derr.Error())
		}
	}
	return uri, err
}

func (g *gate) Remove(paths ...string) error {
	c := &call{paths: paths, ids: idsOfPaths(paths)}
	if g.park(c) == relDead {
		return nil
	}
	g.mu.Lock()
	lose := g.loseRm
	g.removed = append(g.removed, c.ids)
	g.mu.Unlock()
	if lose {
		return nil
	}
	return g.inner.Remove(paths...)
}
func (g *gate) Read(path string) ([]byte, error) { return g.inner.Read(path) }
func (g *gate) List() iter.Seq2[string, error]   { return g.inner.List() }
func (g *gate) URI(path string) (string, error)  { return g.inner.URI(path) }
func (g *gate) Copy(src, dst string) error {
	g.mu.Lock()
	dead := g.dead
	g.mu.Unlock()
	if dead {
		return nil
	}
	err := g.inner.Copy(src, dst)
	if err == nil && filepath.Base(dst) == "job.savepoint" {
		g.mu.Lock()
		g.spCopies = append(g.spCopies, dst)
		g.mu.Unlock()
	}
	return err
}

// parked calls in arrival order (deterministic: the harness lets every goroutine settle after each step)
func (g *gate) parked(write bool) []*call {
	g.mu.Lock()
	defer g.mu.Unlock()
	if write {
		return append([]*call(nil), g.writes...)
	}
	return append([]*call(nil), g.removes...)
}
func (g *gate) releaseCall(c *call, how int) {
	g.mu.Lock()
	lst := &g.removes
	if c.write {
		lst = &g.writes
	}
	for i, x := range *lst {
		if x == c {
			*lst = append((*lst)[:i:i], (*lst)[i+1:]...)
			break
		}
	}
	g.mu.Unlock()
	c.release <- how
}

// kill marks the generation dead and lets every parked call return without effect.
func (g *gate) kill() {
	g.mu.Lock()
	g.dead = true
	ws, rs := g.writes, g.removes
	g.writes, g.removes = nil, nil
	g.mu.Unlock()
	for _, c := range append(ws, rs...) {
		c.release <- relDead
	}
}

var _ locations.StorageLocation = (*gate)(nil)
var _ locations.StorageLocation = (*memLoc)(nil)
