package main

// case kind `retain` of mode c13: ties dkv/recovery RetainOnly to the model. A real dkv.DB over a memory file
// system takes DKV checkpoints 1,2,.. and receives the job's retention notifications in generated (possibly
// late) orders; at the end every handle is opened on a COPY of the file system.

import (
	"encoding/json"
	"fmt"
	"io"
	"os"
	"runtime"

	"reduction.dev/reduction/dkv"
	"reduction.dev/reduction/dkv/recovery"
	dkvstorage "reduction.dev/reduction/dkv/storage"
	"verifharness/hx"
)

var debugRetain = os.Getenv("SNAPSTORE_DEBUG") != ""

func copyMemFS(src *dkvstorage.MemoryFilesystem) (*dkvstorage.MemoryFilesystem, error) {
	dst := dkvstorage.NewMemoryFilesystem()
	for _, name := range src.List() {
		f := src.Open(name)
		var buf []byte
		chunk := make([]byte, 1<<16)
		for off := int64(0); ; {
			n, err := f.ReadAt(chunk, off) // Size() of an opened memory file is 0: read until EOF
			buf = append(buf, chunk[:n]...)
			off += int64(n)
			if err == io.EOF || n == 0 {
				break
			}
			if err != nil {
				return nil, fmt.Errorf("copy %s: %v", name, err)
			}
		}
		g := dst.New(name)
		if _, err := g.Write(buf); err != nil {
			return nil, err
		}
		if err := g.Save(); err != nil {
			return nil, err
		}
	}
	return dst, nil
}

func retainOpts(fs dkvstorage.FileSystem) dkv.DBOptions {
	return dkv.DBOptions{FileSystem: fs, MemTableSize: 200, TargetFileSize: 400}
}

// opens: the handle restores (no error, no panic) and the restored database holds every key written before it
func opens(src *dkvstorage.MemoryFilesystem, h recovery.CheckpointHandle, keys [][2]string) (ok bool) {
	defer func() {
		if p := recover(); p != nil {
			if debugRetain {
				fmt.Fprintln(os.Stderr, "open panic:", p)
			}
			ok = false
		}
	}()
	fs, err := copyMemFS(src)
	if err != nil {
		return false
	}
	db := dkv.New(retainOpts(fs))
	if err := db.Start([]recovery.CheckpointHandle{h}); err != nil {
		if debugRetain {
			fmt.Fprintln(os.Stderr, "start error:", err, "files", src.List(), "handle", h)
		}
		return false
	}
	for _, kvp := range keys {
		e, err := db.Get([]byte(kvp[0]))
		if err != nil || string(e.Value()) != kvp[1] {
			if debugRetain {
				fmt.Fprintln(os.Stderr, "key", kvp, err)
			}
			return false
		}
	}
	return true
}

func execRetain(c *hx.Case) (*hx.Result, error) {
	fs := dkvstorage.NewMemoryFilesystem()
	db := dkv.Open(retainOpts(fs), nil)
	var handles []recovery.CheckpointHandle
	var keysAt [][][2]string // keys written up to checkpoint i+1
	var keys [][2]string
	var terms []string
	var lastNote uint64
	late, maxLag := 0, uint64(0)
	for _, raw := range c.Ops[1:] {
		var o op13
		if err := json.Unmarshal(raw, &o); err != nil {
			return nil, err
		}
		switch o.K {
		case "ck":
			id := uint64(len(handles) + 1)
			for j := 0; j < o.N; j++ {
				k, v := fmt.Sprintf("key-%03d-%03d", id, j), fmt.Sprintf("value-%d-%d", id, j)
				db.Put([]byte(k), []byte(v))
				keys = append(keys, [2]string{k, v})
			}
			if o.N > 0 && len(keys) > 1 { // overwrite an older key too
				keys[0][1] = fmt.Sprintf("rewritten-at-%d", id)
				db.Put([]byte(keys[0][0]), []byte(keys[0][1]))
			}
			h, err := db.Checkpoint(id)()
			if err != nil {
				return nil, err
			}
			if err := db.WaitOnTasks(); err != nil {
				return nil, err
			}
			handles = append(handles, h)
			keysAt = append(keysAt, append([][2]string(nil), keys...))
			terms = append(terms, "RCk")
		case "rt":
			if len(handles) == 0 {
				continue
			}
			id := uint64(1 + o.I%len(handles))
			if id <= lastNote { // the job's notifications are strictly increasing (publish_keeps_newest)
				continue
			}
			lastNote = id
			if lag := uint64(len(handles)) - id; lag > 0 {
				late++
				maxLag = max(maxLag, lag)
			}
			if err := db.UpdateRetainedCheckpoints([]uint64{id}); err != nil {
				return nil, err
			}
			if err := db.WaitOnTasks(); err != nil {
				return nil, err
			}
			terms = append(terms, "RRt "+hx.CoqN(id))
		default:
			return nil, fmt.Errorf("unknown op %q in a retain case", o.K)
		}
	}
	var open []uint64
	for i, h := range handles {
		if opens(fs, h, keysAt[i]) {
			open = append(open, uint64(i+1))
		}
	}
	runtime.KeepAlive(db) // the original database object stays alive: its tables are not collected (D11)
	for i := range terms {
		terms[i] = "(" + terms[i] + ")"
	}
	tags := []string{"retain", fmt.Sprintf("dkv_checkpoints=%d", min(len(handles), 5)), fmt.Sprintf("late_notifications=%d", min(late, 3)), fmt.Sprintf("max_lag=%d", min(int(maxLag), 3))}
	return &hx.Result{Term: fmt.Sprintf("Retain %s %s", hx.CoqList(terms, "rstep"), nlist(open)),
		Nontrivial: late > 0, Tags: tags,
		Observed: map[string]any{"checkpoints": len(handles), "last_notification": lastNote, "handles_that_open": open}}, nil
}

func genRetain(r *hx.Rand) *hx.Case {
	ops := []any{op13{K: "retain"}}
	taken, noted := 0, 0
	n := r.Range(3, 9)
	for i := 0; i < n; i++ {
		if taken == 0 || r.Chance(3, 5) {
			ops = append(ops, op13{K: "ck", N: r.Range(0, 12)})
			taken++
		} else if noted < taken {
			// the next notification names a checkpoint above the last one named; lag 0, 1, 2, ...
			id := noted + 1 + r.Intn(taken-noted)
			if r.Bool() {
				id = noted + 1 // the oldest one not yet announced: the latest possible delivery
			}
			ops = append(ops, op13{K: "rt", I: id - 1})
			noted = id
		}
	}
	if noted < taken && r.Chance(2, 3) {
		ops = append(ops, op13{K: "rt", I: noted + r.Intn(taken-noted)})
	}
	return mkCase("c13", "retain", ops)
}
