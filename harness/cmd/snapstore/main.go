// engine snapstore: the real snapshots.Store (job-level checkpoint assembly, publication, retention, recovery).
//
//	mode c12: API histories (create checkpoint / savepoint, operator and source-runner acks incl. duplicates, wrong ids,
//	          unknown senders, restarts) over an in-memory StorageLocation; publication is awaited (quiescence barrier).
//	mode c13: (a) pathSegment at byte level, (b) LoadCheckpoint over a real LocalDirectory holding snapshot files of an id set,
//	          (c) schedules of the asynchronous publication steps (write file / locked update / remove / notify) of overlapping
//	          checkpoints over a gated real LocalDirectory, with crashes (store abandoned, new store on the same directory).
package main

import (
	"bytes"
	"encoding/json"
	"errors"
	"fmt"
	"io"
	"log/slog"
	"os"
	"path/filepath"
	"strings"

	"google.golang.org/protobuf/proto"
	"reduction.dev/reduction/connectors"
	"reduction.dev/reduction/proto/jobpb"
	"reduction.dev/reduction/proto/snapshotpb"
	"reduction.dev/reduction/storage/locations"
	"reduction.dev/reduction/storage/objstore"
	"reduction.dev/reduction/storage/snapshots"
	"verifharness/hx"
)

type eng struct{}

func (eng) Name() string { return "snapstore" }
func (eng) CoqRequire(mode string) string {
	return "From RV Require Import Base.Mach Base.Bytes Model.SnapStore Model.Publish Corr.Check_snapstore."
}
func (eng) CoqCaseType(mode string) string { return "Check_snapstore.case" }
func (eng) CoqRun(mode string) string      { return "Check_snapstore.run" }
func (eng) Rule(mode string) string {
	if mode == "c12" {
		return "random API histories on the real Store: assemblies of 0..4 operators and 0..3 source runners (duplicate names in the lists possible), acks in random order with injected duplicates, stale/future ids, unknown senders, acks without a pending checkpoint, creations while one is pending, savepoint joins, restarts (new Store + LoadCheckpoint on the same storage) with and without a pending checkpoint, fault injection 'the Remove calls of this process never reach the storage' so that restarts find 2..6 snapshot files of several generations (listing in byte order of the names, as LocalDirectory gives), plus structured multi-generation histories (publish 1..4, restart, create), plus schedules of overlapping publications with gated (stalled) snapshot writes released out of id order, where CurrentCheckpoint().Id is observed after every write (must never decrease within a store lifetime). Non-trivial: at least one checkpoint published and at least one rejected/ignored ack or a restart; distinct by hash of the op list."
	}
	return "seg: pathSegment of boundary, small, random 64-bit and carry-pattern ids; load: real LocalDirectory holding snapshot files of random id sets (neighbouring ids around base64 alphabet-order inversions, small and huge ids), listing order and LoadCheckpoint result; sched: random schedules of pub (snapshots of 0..7 split states, some as savepoints) / release-write / release-remove / receive-notification / crash / start-from-a-savepoint over up to 4 overlapping publications from random base ids; rewind: a run with a savepoint and k further large checkpoints, a second run started from the savepoint on the same storage that reaches the same ids with smaller snapshots (snapshot files rewritten with shorter content), then a plain restart; every written snapshot file is read back and decoded; retain: a real dkv.DB (memory file system, 200-byte memtables) takes DKV checkpoints and receives strictly increasing retention notifications with lag 0..3 checkpoints, every handle is then opened on a copy of the file system; loads3: LoadCheckpoint over an S3Location (memory S3 service) whose bucket also holds a sibling location with a longer name and newer snapshots; jobstart: the real jobs.New over a directory holding 0..3 snapshot files whose reads succeed / fail with not-found / fail with another error. Non-trivial: (load) >= 2 ids; (sched) >= 2 publications with at least one write released out of id order or a crash with >= 2 files present; distinct by hash of the op list."
}

// ---------- shared pieces ----------

type splitter struct {
	connectors.UnimplementedSourceSplitter
	n int
}

func (s *splitter) Checkpoint() []byte { s.n++; return nil }

type world struct {
	inner   locations.StorageLocation
	g       *gate
	store   *snapshots.Store
	notes   chan []uint64
	errs    chan error
	spl     *splitter
	failObs *failObs // set by afterAck when the completing ack's snapshot write failed
}

func (w *world) boot(gated bool) error { return w.bootFrom(gated, "") }

// bootFrom starts a new Store on the same storage; spURI != "" starts it from that savepoint.
func (w *world) bootFrom(gated bool, spURI string) error {
	w.g = &gate{inner: w.inner, gated: gated}
	w.notes = make(chan []uint64)
	w.errs = make(chan error, 64)
	w.spl = &splitter{}
	w.store = snapshots.NewStore(&snapshots.NewStoreParams{
		SavepointURI:               spURI,
		FileStore:                  w.g,
		SavepointsPath:             "savepoints",
		CheckpointsPath:            "checkpoints",
		RetainedCheckpointsUpdated: w.notes,
		ErrChan:                    w.errs,
	})
	w.store.RegisterSourceSplitter(w.spl)
	return w.store.LoadCheckpoint()
}

// drainNotes receives every notification a sender is blocked on (in the order the channel hands them over).
func (w *world) drainNotes() [][]uint64 {
	var out [][]uint64
	for {
		quiesce()
		select {
		case v := <-w.notes:
			out = append(out, v)
		default:
			return out
		}
	}
}

// abandon kills the storage of the current store generation and lets its goroutines run out.
func (w *world) abandon() {
	w.g.kill()
	for {
		if len(w.drainNotes()) == 0 {
			break
		}
	}
}

func (w *world) snapshotFiles() []uint64 {
	var ids []uint64
	for p, err := range w.inner.List() {
		if err != nil {
			break
		}
		if filepath.Ext(p) == ".snapshot" {
			if id, ok := idOfSnapshotPath(p); ok {
				ids = append(ids, id)
			} else {
				ids = append(ids, 0)
			}
		}
	}
	return ids
}

func containsU(xs []uint64, x uint64) bool {
	for _, y := range xs {
		if y == x {
			return true
		}
	}
	return false
}
func slicesMax(xs []uint64) uint64 {
	var m uint64
	for _, x := range xs {
		m = max(m, x)
	}
	return m
}

func nlist(xs []uint64) string {
	it := make([]string, len(xs))
	for i, x := range xs {
		it[i] = hx.CoqN(x)
	}
	return hx.CoqList(it, "N")
}
func nlistlist(xs [][]uint64) string {
	it := make([]string, len(xs))
	for i, x := range xs {
		it[i] = nlist(x)
	}
	return hx.CoqList(it, "list N")
}
func optN(ok bool, x uint64) string {
	if !ok {
		return "(@None N)"
	}
	return "(Some " + hx.CoqN(x) + ")"
}
func optNlist(ok bool, xs []uint64) string {
	if !ok {
		return "(@None (list N))"
	}
	return "(Some " + nlist(xs) + ")"
}
func snapTerm(s *snapObs) string {
	it := make([]string, len(s.Entries))
	for i, e := range s.Entries {
		it[i] = fmt.Sprintf("(%s, %s, %s)", hx.CoqN(e.Op), hx.CoqN(e.Cid), hx.CoqN(e.Pl))
	}
	return fmt.Sprintf("(MkSnap %s %s %s)", hx.CoqN(s.ID), hx.CoqList(it, "N * N * N"), nlist(s.Splits))
}

// ---------- mode c12 ----------

type op12 struct {
	K   string   `json:"k"`           // ck | sp | ao | as | rs | lr | rf | ab | fw
	I   int      `json:"i,omitempty"` // rf: index (mod their number) of the savepoint artifact to start from
	B   bool     `json:"b,omitempty"` // lr: Remove calls get lost from now on (until the next restart)
	Ops []uint64 `json:"ops,omitempty"`
	Srs []uint64 `json:"srs,omitempty"`
	D   int      `json:"d,omitempty"`  // ack id = last id seen + d
	Op  uint64   `json:"op,omitempty"` // node number
	Pl  uint64   `json:"pl,omitempty"`
	St  []uint64 `json:"st,omitempty"`
}

func names(f func(uint64) string, xs []uint64) []string {
	out := make([]string, len(xs))
	for i, x := range xs {
		out[i] = f(x)
	}
	return out
}

type failObs struct {
	Removed [][]uint64 `json:"removed"`
	Notes   [][]uint64 `json:"notes"`
	Cur     uint64     `json:"current_checkpoint"`
	Some    bool       `json:"some"`
	Errors  int        `json:"errors_reported"`
}

type pubObs struct {
	Snap    *snapObs   `json:"snap"`
	Removed [][]uint64 `json:"removed"`
	Notes   [][]uint64 `json:"notes"`
	SpW     bool       `json:"savepoint_written"`
}

// afterAck collects what a completing ack made the store do (publication awaited by the barrier).
func (w *world) afterAck(before int) (string, *pubObs, error) {
	if w.spl.n == before {
		return "(@None pubobs)", nil, nil
	}
	notes := w.drainNotes()
	w.g.mu.Lock()
	written, removed, sp := w.g.written, w.g.removed, w.g.spCopies
	w.g.written, w.g.removed, w.g.spCopies = nil, nil, nil
	w.g.mu.Unlock()
	nerr := 0
	for drained := false; !drained; {
		select {
		case <-w.errs:
			nerr++
		default:
			drained = true
		}
	}
	w.g.mu.Lock()
	failed := w.g.failedWrites
	w.g.failedWrites = nil
	w.g.mu.Unlock()
	if len(written) == 0 && len(failed) == 1 {
		// the write of the snapshot file failed: what the store did nevertheless
		cur := w.store.CurrentCheckpoint()
		w.failObs = &failObs{Removed: removed, Notes: notes, Cur: cur.GetId(), Some: cur != nil, Errors: nerr}
		return "", nil, nil
	}
	if len(written) != 1 {
		return "", nil, fmt.Errorf("publication wrote %d snapshot files", len(written))
	}
	po := &pubObs{Snap: written[0], Removed: removed, Notes: notes, SpW: len(sp) > 0}
	if po.SpW {
		// the savepoint must be addressable by its id
		uri, err := w.store.SavepointURIForID(po.Snap.ID)
		if err != nil || uri != sp[0] {
			po.SpW = false
		}
	}
	return fmt.Sprintf("(Some (MkPub %s %s %s %s))", snapTerm(po.Snap), nlistlist(removed), nlistlist(notes), hx.CoqBool(po.SpW)), po, nil
}

func execC12(c *hx.Case) (*hx.Result, error) {
	w := &world{inner: newMemLoc()}
	if err := w.boot(false); err != nil {
		return nil, err
	}
	var last uint64
	var terms []string
	var observed []any
	tags := map[string]bool{}
	npub, nbad, nrs := 0, 0, 0
	var sps []uint64 // ids whose savepoint artifact has been written
	for _, raw := range c.Ops {
		var o op12
		if err := json.Unmarshal(raw, &o); err != nil {
			return nil, err
		}
		cid := uint64(0)
		if int64(last)+int64(o.D) > 0 {
			cid = uint64(int64(last) + int64(o.D))
		}
		switch o.K {
		case "ck":
			id, err := w.store.CreateCheckpoint(names(opName, o.Ops), names(srName, o.Srs))
			if err != nil && !errors.Is(err, snapshots.ErrCheckpointInProgress) {
				return nil, fmt.Errorf("CreateCheckpoint: unexpected error %v", err)
			}
			if err == nil {
				last = id
			} else {
				tags["create_while_pending"] = true
			}
			terms = append(terms, fmt.Sprintf("XCreate %s %s %s %s", nlist(o.Ops), nlist(o.Srs), hx.CoqBool(err != nil), hx.CoqN(id)))
			observed = append(observed, map[string]any{"create": id, "err": err != nil})
		case "sp":
			id, created, err := w.store.CreateSavepoint(names(opName, o.Ops), names(srName, o.Srs))
			if err == nil {
				last = id
			}
			if err == nil && !created {
				tags["savepoint_join"] = true
			}
			terms = append(terms, fmt.Sprintf("XSavepoint %s %s %s %s %s", nlist(o.Ops), nlist(o.Srs), hx.CoqBool(err != nil), hx.CoqN(id), hx.CoqBool(created)))
			observed = append(observed, map[string]any{"savepoint": id, "created": created, "err": err != nil})
		case "ao":
			before := w.spl.n
			err := w.store.AddOperatorSnapshot(&snapshotpb.OperatorCheckpoint{
				CheckpointId: cid, OperatorId: opName(o.Op), DkvFileUri: dkvURI(o.Op, o.Pl, cid),
				KeyGroupRange: &snapshotpb.KeyGroupRange{Start: 0, End: 0}})
			pt, po, perr := w.afterAck(before)
			if perr != nil {
				return nil, perr
			}
			if po != nil {
				npub++
				if po.SpW && !containsU(sps, po.Snap.ID) {
					sps = append(sps, po.Snap.ID)
				}
			}
			if err != nil || o.D != 0 {
				nbad++
			}
			if fo := w.failObs; fo != nil {
				w.failObs = nil
				tags["snapshot_write_failed"] = true
				terms = append(terms, fmt.Sprintf("XAckOpF %s %s %s %s %s %s %s", hx.CoqN(cid), hx.CoqN(o.Op), hx.CoqN(o.Pl), hx.CoqBool(err != nil), nlistlist(fo.Removed), nlistlist(fo.Notes), optN(fo.Some, fo.Cur)))
				observed = append(observed, map[string]any{"ack_op": o.Op, "cid": cid, "err": err != nil, "write_failed": fo})
				break
			}
			terms = append(terms, fmt.Sprintf("XAckOp %s %s %s %s %s", hx.CoqN(cid), hx.CoqN(o.Op), hx.CoqN(o.Pl), hx.CoqBool(err != nil), pt))
			observed = append(observed, map[string]any{"ack_op": o.Op, "cid": cid, "err": err != nil, "published": po})
		case "as":
			before := w.spl.n
			st := make([][]byte, len(o.St))
			for i, t := range o.St {
				st[i] = bytesOfTok(t)
			}
			err := w.store.AddSourceSnapshot(&jobpb.SourceRunnerCheckpointCompleteRequest{
				CheckpointId: cid, SourceRunnerId: srName(o.Op), SplitStates: st})
			pt, po, perr := w.afterAck(before)
			if perr != nil {
				return nil, perr
			}
			if po != nil {
				npub++
				if po.SpW && !containsU(sps, po.Snap.ID) {
					sps = append(sps, po.Snap.ID)
				}
			}
			if err != nil || o.D != 0 {
				nbad++
			}
			if fo := w.failObs; fo != nil {
				w.failObs = nil
				tags["snapshot_write_failed"] = true
				terms = append(terms, fmt.Sprintf("XAckSrF %s %s %s %s %s %s %s", hx.CoqN(cid), hx.CoqN(o.Op), nlist(o.St), hx.CoqBool(err != nil), nlistlist(fo.Removed), nlistlist(fo.Notes), optN(fo.Some, fo.Cur)))
				observed = append(observed, map[string]any{"ack_sr": o.Op, "cid": cid, "err": err != nil, "write_failed": fo})
				break
			}
			terms = append(terms, fmt.Sprintf("XAckSr %s %s %s %s %s", hx.CoqN(cid), hx.CoqN(o.Op), nlist(o.St), hx.CoqBool(err != nil), pt))
			observed = append(observed, map[string]any{"ack_sr": o.Op, "cid": cid, "err": err != nil, "published": po})
		case "lr":
			w.g.mu.Lock()
			w.g.loseRm = o.B
			w.g.mu.Unlock()
			terms = append(terms, "XLoseRemoves "+hx.CoqBool(o.B))
			observed = append(observed, map[string]any{"lose_removes": o.B})
		case "fw":
			w.g.mu.Lock()
			w.g.failNext = true
			w.g.mu.Unlock()
			terms = append(terms, "XFailNextWrite")
			observed = append(observed, "fail_next_write")
		case "ab":
			w.store.AbortPendingCheckpoint()
			terms = append(terms, "XAbort")
			observed = append(observed, "abort")
		case "rs", "rf":
			nrs++
			w.abandon()
			files := w.snapshotFiles()
			if len(files) >= 2 {
				tags["restart_with_obsolete_files"] = true
			}
			if len(files) >= 3 {
				tags["restart_with_3+_files"] = true
			}
			spURI, spID := "", uint64(0)
			if o.K == "rf" && len(sps) > 0 {
				spID = sps[o.I%len(sps)]
				var err error
				if spURI, err = w.store.SavepointURIForID(spID); err != nil {
					return nil, err
				}
				tags["start_from_savepoint"] = true
				if len(files) > 0 && spID < slicesMax(files) {
					tags["savepoint_rewind_below_newest_file"] = true
				}
			}
			// a LoadCheckpoint error is an observation: the store resumed from nothing
			if err := w.bootFrom(false, spURI); err != nil {
				tags["load_error"] = true
			}
			cur := w.store.CurrentCheckpoint()
			ct := "(@None snapobs)"
			var co *snapObs
			last = 0
			if cur != nil {
				var err error
				if co, err = snapOfProto(cur); err != nil {
					return nil, err
				}
				ct = "(Some " + snapTerm(co) + ")"
				last = cur.Id
			}
			if spURI != "" {
				terms = append(terms, fmt.Sprintf("XRestartFrom %s %s %s", hx.CoqN(spID), nlist(files), ct))
				observed = append(observed, map[string]any{"start_from_savepoint": spID, "files": files, "current": co})
			} else {
				terms = append(terms, fmt.Sprintf("XRestart %s %s", nlist(files), ct))
				observed = append(observed, map[string]any{"restart_files": files, "current": co})
			}
		default:
			return nil, fmt.Errorf("unknown op %q", o.K)
		}
	}
	w.abandon()
	for i := range terms {
		terms[i] = "(" + terms[i] + ")"
	}
	tl := []string{fmt.Sprintf("published=%d", min(npub, 4)), fmt.Sprintf("restarts=%d", min(nrs, 3))}
	if nbad > 0 {
		tl = append(tl, "bad_acks")
	}
	for t := range tags {
		tl = append(tl, t)
	}
	if len(observed) > 14 {
		observed = append(observed[:14:14], "...")
	}
	return &hx.Result{Term: "C12 " + hx.CoqList(terms, "c12op"), Nontrivial: npub > 0 && (nbad > 0 || nrs > 0), Tags: tl, Observed: observed}, nil
}

// ---------- mode c13 ----------

type op13 struct {
	K   string   `json:"k"`             // seg | load | base | pub | w | wf | r | t | crash | rw
	N   int      `json:"n,omitempty"`   // pub: number of split states (content size of the snapshot file)
	Sp  bool     `json:"sp,omitempty"`  // pub: a savepoint (artifact written after publication)
	ID  uint64   `json:"id,omitempty"`  // seg: the id; base: the seeded checkpoint id
	IDs []uint64 `json:"ids,omitempty"` // load
	Sib []uint64 `json:"sib,omitempty"` // loads3: ids in the sibling location
	I   int      `json:"i,omitempty"`   // w / r : index into the parked calls (mod their number)
}

const badTag = 999999

// fileTag: the number of split states of the snapshot the file holds (badTag if it is not exactly one parsable
// job checkpoint of that id).
func fileTag(path string, id uint64) uint64 {
	data, err := os.ReadFile(path)
	if err != nil {
		return badTag
	}
	var c snapshotpb.JobCheckpoint
	if err := proto.Unmarshal(data, &c); err != nil || c.Id != id || len(c.SourceCheckpoints) != 1 || len(c.OperatorCheckpoints) != 1 {
		return badTag
	}
	return uint64(len(c.SourceCheckpoints[0].SplitStates))
}

// realSegment obtains pathSegment(id) from the real code through the public SavepointURIForID.
func realSegment(id uint64) (string, error) {
	st := snapshots.NewStore(&snapshots.NewStoreParams{FileStore: newMemLoc(), SavepointsPath: "savepoints", CheckpointsPath: "checkpoints"})
	uri, err := st.SavepointURIForID(id)
	if err != nil {
		return "", err
	}
	parts := strings.Split(filepath.ToSlash(uri), "/")
	if len(parts) != 3 {
		return "", fmt.Errorf("unexpected savepoint uri %q", uri)
	}
	return parts[1], nil
}

func seedFile(dir locations.StorageLocation, id uint64) error {
	seg, err := realSegment(id)
	if err != nil {
		return err
	}
	data, err := proto.Marshal(&snapshotpb.JobCheckpoint{Id: id, SourceCheckpoints: []*snapshotpb.SourceCheckpoint{{CheckpointId: id, SourceId: "tbd"}}})
	if err != nil {
		return err
	}
	_, err = dir.Write(filepath.Join("checkpoints", "job-"+seg+".snapshot"), bytes.NewReader(data))
	return err
}

// execLoadS3: LoadCheckpoint over an S3Location whose bucket also holds a sibling location with a longer name.
func execLoadS3(c *hx.Case, o op13) (*hx.Result, error) {
	svc := objstore.NewMemoryS3Service()
	own, err := locations.NewS3Location(svc, "s3://bucket/jobs/etl")
	if err != nil {
		return nil, err
	}
	sib, err := locations.NewS3Location(svc, "s3://bucket/jobs/etl-v2")
	if err != nil {
		return nil, err
	}
	for _, id := range o.IDs {
		if err := seedFile(own, id); err != nil {
			return nil, err
		}
	}
	for _, id := range o.Sib {
		if err := seedFile(sib, id); err != nil {
			return nil, err
		}
	}
	w := &world{inner: own}
	listing := w.snapshotFiles()
	if err := w.boot(false); err != nil {
		return nil, err
	}
	cur := w.store.CurrentCheckpoint()
	var lid uint64
	if cur != nil {
		lid = cur.Id
	}
	return &hx.Result{Term: fmt.Sprintf("LoadS3 %s %s %s %s", nlist(o.IDs), nlist(o.Sib), nlist(listing), optN(cur != nil, lid)),
		Nontrivial: len(o.Sib) > 0, Tags: []string{"loads3", fmt.Sprintf("sibling_files=%d", min(len(o.Sib), 3))},
		Observed: map[string]any{"listing": listing, "loaded": lid, "some": cur != nil}}, nil
}

func execC13(c *hx.Case) (*hx.Result, error) {
	if len(c.Ops) == 0 {
		return nil, fmt.Errorf("empty case")
	}
	var first op13
	if err := json.Unmarshal(c.Ops[0], &first); err != nil {
		return nil, err
	}
	switch first.K {
	case "retain":
		return execRetain(c)
	case "loads3":
		return execLoadS3(c, first)
	case "jobstart":
		return execJobStart(c)
	case "seg":
		seg, err := realSegment(first.ID)
		if err != nil {
			return nil, err
		}
		return &hx.Result{Term: fmt.Sprintf("Seg %s %s", hx.CoqN(first.ID), hx.CoqBytes([]byte(seg))), Nontrivial: true,
			Tags: []string{"seg"}, Observed: map[string]any{"id": first.ID, "segment": seg}}, nil
	case "load":
		tmp, err := os.MkdirTemp("", "snapstore-load-")
		if err != nil {
			return nil, err
		}
		defer os.RemoveAll(tmp)
		dir := locations.NewLocalDirectory(tmp)
		for _, id := range first.IDs {
			if err := seedFile(dir, id); err != nil {
				return nil, err
			}
		}
		// files that are not snapshots must not matter
		dir.Write("checkpoints/-note.txt", strings.NewReader("x"))
		dir.Write("a/first.txt", strings.NewReader("x"))
		w := &world{inner: dir}
		listing := w.snapshotFiles()
		if err := w.boot(false); err != nil {
			return nil, err
		}
		cur := w.store.CurrentCheckpoint()
		var lid uint64
		if cur != nil {
			lid = cur.Id
		}
		inv := "order=descending"
		for i := 1; i < len(listing); i++ {
			if listing[i] > listing[i-1] {
				inv = "order=not-descending"
			}
		}
		return &hx.Result{Term: fmt.Sprintf("Load %s %s %s", nlist(first.IDs), nlist(listing), optN(cur != nil, lid)), Nontrivial: len(first.IDs) >= 2,
			Tags: []string{"load", fmt.Sprintf("load_ids=%d", min(len(first.IDs), 5)), inv}, Observed: map[string]any{"listing": listing, "loaded": lid, "some": cur != nil}}, nil
	}
	// schedule
	tmp, err := os.MkdirTemp("", "snapstore-sched-")
	if err != nil {
		return nil, err
	}
	defer os.RemoveAll(tmp)
	dir := locations.NewLocalDirectory(tmp)
	ops := c.Ops
	base := uint64(0)
	if first.K == "base" {
		base = first.ID
		ops = ops[1:]
		if base > 0 {
			if err := seedFile(dir, base); err != nil {
				return nil, err
			}
		}
	}
	w := &world{inner: dir}
	if err := w.boot(true); err != nil {
		return nil, err
	}
	var terms []string
	var observed []any
	npub, ncrash, nsp, nrw, rewrites, nfail := 0, 0, 0, 0, 0, 0
	outOfOrder, crashMulti, loadErr, curBack := false, false, false, false
	var lastCur uint64
	var sps []uint64 // ids with a savepoint artifact in storage
	written := map[uint64]bool{}
	var maxW uint64
	for _, raw := range ops {
		var o op13
		if err := json.Unmarshal(raw, &o); err != nil {
			return nil, err
		}
		switch o.K {
		case "pub":
			var id uint64
			var err error
			if o.Sp {
				id, _, err = w.store.CreateSavepoint([]string{opName(1)}, []string{srName(1)})
			} else {
				id, err = w.store.CreateCheckpoint([]string{opName(1)}, []string{srName(1)})
			}
			if err == nil {
				// the operator's DKV checkpoints file (real, absolute: the savepoint artifact copies it)
				uri := filepath.Join(tmp, dkvURI(1, id, id))
				if o.Sp {
					os.MkdirAll(filepath.Dir(uri), 0o777)
					if err := os.WriteFile(uri, []byte(fmt.Sprintf(`{"checkpoints":[{"id":%d}]}`, id)), 0o644); err != nil {
						return nil, err
					}
					nsp++
				}
				states := make([][]byte, o.N)
				for i := range states {
					states[i] = []byte(fmt.Sprintf("split-state-%d-of-checkpoint-%d", i, id))
				}
				e1 := w.store.AddOperatorSnapshot(&snapshotpb.OperatorCheckpoint{CheckpointId: id, OperatorId: opName(1), DkvFileUri: uri})
				e2 := w.store.AddSourceSnapshot(&jobpb.SourceRunnerCheckpointCompleteRequest{CheckpointId: id, SourceRunnerId: srName(1), SplitStates: states})
				if e1 != nil || e2 != nil {
					return nil, fmt.Errorf("acks rejected: %v %v", e1, e2)
				}
				npub++
			} else {
				id = 0
			}
			quiesce()
			terms = append(terms, fmt.Sprintf("YPub %d %s %s", o.N, hx.CoqBool(o.Sp), hx.CoqN(id)))
			observed = append(observed, map[string]any{"pub": id, "n": o.N, "sp": o.Sp})
		case "w":
			ws := w.g.parked(true)
			ok := len(ws) > 0
			var id, tag uint64
			if ok {
				cl := ws[o.I%len(ws)]
				id = cl.ids[0]
				if id < maxW {
					outOfOrder = true
				}
				maxW = max(maxW, id)
				if written[id] {
					rewrites++
				}
				written[id] = true
				w.g.releaseCall(cl, relPerform)
				quiesce()
				// what the file holds now, read back from the real directory
				tag = fileTag(filepath.Join(tmp, cl.paths[0]), id)
				if _, err := w.store.SavepointURIForID(id); err == nil && !containsU(sps, id) {
					sps = append(sps, id)
				}
			}
			curID := w.store.CurrentCheckpoint().GetId()
			if curID < lastCur {
				curBack = true
			}
			lastCur = curID
			terms = append(terms, fmt.Sprintf("YW %d %s %s %s", o.I, optN(ok, id), hx.CoqN(tag), hx.CoqN(curID)))
			observed = append(observed, map[string]any{"write": id, "some": ok, "file_split_states": tag, "current_checkpoint": curID})
		case "wf":
			ws := w.g.parked(true)
			ok := len(ws) > 0
			var id uint64
			if ok {
				cl := ws[o.I%len(ws)]
				id = cl.ids[0]
				w.g.releaseCall(cl, relFail)
				quiesce()
				nfail++
			}
			curID := w.store.CurrentCheckpoint().GetId()
			if ok {
				lastCur = curID
			}
			terms = append(terms, fmt.Sprintf("YWF %d %s %s", o.I, optN(ok, id), hx.CoqN(curID)))
			observed = append(observed, map[string]any{"write_failed": id, "some": ok, "current_checkpoint": curID})
		case "r":
			rs := w.g.parked(false)
			ok := len(rs) > 0
			var ids []uint64
			if ok {
				cl := rs[o.I%len(rs)]
				ids = cl.ids
				w.g.releaseCall(cl, relPerform)
				quiesce()
			}
			terms = append(terms, fmt.Sprintf("YR %d %s", o.I, optNlist(ok, ids)))
			observed = append(observed, map[string]any{"remove": ids, "some": ok})
		case "t":
			quiesce()
			var v []uint64
			ok := false
			select {
			case v = <-w.notes:
				ok = true
				quiesce()
			default:
			}
			terms = append(terms, "YT "+optNlist(ok, v))
			observed = append(observed, map[string]any{"note": v, "some": ok})
		case "crash", "rw":
			ncrash++
			w.abandon()
			files := w.snapshotFiles()
			if len(files) >= 2 {
				crashMulti = true
			}
			spURI, spID := "", uint64(0)
			if o.K == "rw" && len(sps) > 0 {
				spID = sps[o.I%len(sps)]
				var err error
				if spURI, err = w.store.SavepointURIForID(spID); err != nil {
					return nil, err
				}
				nrw++
			}
			// a LoadCheckpoint error is an observation: nothing was resumed
			if err := w.bootFrom(true, spURI); err != nil {
				loadErr = true
			}
			cur := w.store.CurrentCheckpoint()
			var lid, ltag uint64
			if cur != nil {
				lid = cur.Id
				if len(cur.SourceCheckpoints) == 1 {
					ltag = uint64(len(cur.SourceCheckpoints[0].SplitStates))
				} else {
					ltag = badTag
				}
			}
			maxW = 0
			lastCur = lid
			if spURI != "" {
				terms = append(terms, fmt.Sprintf("YRewind %s %s %s %s", hx.CoqN(spID), nlist(files), optN(cur != nil, lid), hx.CoqN(ltag)))
				observed = append(observed, map[string]any{"start_from_savepoint": spID, "files": files, "loaded": lid, "some": cur != nil, "split_states": ltag})
			} else {
				terms = append(terms, fmt.Sprintf("YCrash %s %s %s", nlist(files), optN(cur != nil, lid), hx.CoqN(ltag)))
				observed = append(observed, map[string]any{"crash_files": files, "loaded": lid, "some": cur != nil, "split_states": ltag})
			}
		default:
			return nil, fmt.Errorf("unknown op %q in a schedule", o.K)
		}
	}
	// the end of the case: first receive every notification still to come (recorded as ordinary `t` steps; a
	// delivery can let further background work start, e.g. a Remove that the implementation issues only after
	// the announcement), then look at what is parked. The barrier before each look makes "nothing more arrives"
	// a fact, not a guess.
	for {
		quiesce()
		var v []uint64
		got := false
		select {
		case v = <-w.notes:
			got = true
		default:
		}
		if !got {
			break
		}
		terms = append(terms, "YT "+optNlist(true, v))
		observed = append(observed, map[string]any{"note": v, "some": true, "final_drain": true})
	}
	var endW []uint64
	for _, cl := range w.g.parked(true) {
		endW = append(endW, cl.ids[0])
	}
	var endR [][]uint64
	for _, cl := range w.g.parked(false) {
		endR = append(endR, cl.ids)
	}
	var endT [][]uint64
	w.abandon()
	for i := range terms {
		terms[i] = "(" + terms[i] + ")"
	}
	tags := []string{"sched", fmt.Sprintf("pubs=%d", min(npub, 5)), fmt.Sprintf("crashes=%d", min(ncrash, 3))}
	if outOfOrder {
		tags = append(tags, "write_out_of_id_order")
	}
	if crashMulti {
		tags = append(tags, "crash_with_several_files")
	}
	if base > 1<<32 {
		tags = append(tags, "huge_base")
	}
	if nsp > 0 {
		tags = append(tags, "savepoints")
	}
	if nrw > 0 {
		tags = append(tags, "start_from_savepoint")
	}
	if rewrites > 0 {
		tags = append(tags, "snapshot_file_rewritten")
	}
	if loadErr {
		tags = append(tags, "load_error")
	}
	if curBack {
		tags = append(tags, "current_checkpoint_went_back")
	}
	if nfail > 0 {
		tags = append(tags, "snapshot_write_failed")
	}
	if len(observed) > 16 {
		observed = append(observed[:16:16], "...")
	}
	return &hx.Result{Term: fmt.Sprintf("Sched %s %s %s %s %s", hx.CoqN(base), hx.CoqList(terms, "c13step"), nlist(endW), nlistlist(endR), nlistlist(endT)),
		Nontrivial: npub >= 2 && (outOfOrder || crashMulti), Tags: tags, Observed: observed}, nil
}

func (eng) Execute(mode string, c *hx.Case) (*hx.Result, error) {
	switch mode {
	case "c12":
		// overlapping publications (gated writes) seen from C12: the same schedule cases as mode c13
		if len(c.Ops) > 0 {
			var first op13
			if json.Unmarshal(c.Ops[0], &first) == nil && first.K == "base" {
				return execC13(c)
			}
		}
		return execC12(c)
	case "c13":
		return execC13(c)
	}
	return nil, fmt.Errorf("unknown mode %q", mode)
}

func main() {
	slog.SetDefault(slog.New(slog.NewTextHandler(io.Discard, nil)))
	hx.Main(eng{})
}
