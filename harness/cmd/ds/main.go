// engine ds (property C19): the in-memory ordered structures of /repo driven by random operation sequences.
// One case = one structure (params.struct) + its history (ops). Only exported-method results are observed.
package main

import (
	"bytes"
	"cmp"
	"encoding/json"
	"fmt"
	"iter"
	"slices"
	"sort"
	"strings"
	"syscall"
	"time"

	"reduction.dev/reduction/dkv/mergesort"
	"reduction.dev/reduction/dkv/ziptree"
	"reduction.dev/reduction/util/ds"
	"reduction.dev/reduction/util/iteru"
	"reduction.dev/reduction/util/sliceu"
	"verifharness/hx"
)

type eng struct{}

func (eng) Name() string                   { return "ds" }
func (eng) CoqRequire(mode string) string  { return "From RV Require Import Base.Bytes Corr.Check_ds." }
func (eng) CoqCaseType(mode string) string { return "Check_ds.case" }
func (eng) CoqRun(mode string) string      { return "Check_ds.run" }
func (eng) Rule(mode string) string {
	return "search: every (n<=N0, target = each element, each gap, below, above) exhaustively for int slices and for table ranges, plus random large; " +
		"pset: persistent histories over a pool of set values (NewSet(cap) with spare capacity, SetOf, Added/Without/Diff from any member, in-place Add on any member), every member observed (Slice, All, Size, Has over the universe) at random points and at the end; heap/ppq/ziptree/cache/set/smap: random histories of 1..60 ops over small key/priority pools (duplicates, prefix-related keys, equal priorities, empty structure reached by draining); " +
		"comparators handed to SearchUnique/Heap/PPQ/Merge/MergeSorted return mag*(-1|0|+1), mag in {1,2,7,1000003} (only the sign is contractual); zipn: 1..3 trees exchanging node OBJECTS (replaced nodes, nodes of a given-up tree) re-Put as they are or with another key/value; iterator values (ZipTree.AscendPrefix, Set.All, SortedMap.All) are obtained once and ranged several times: early breaks first, mutations in between, a complete pass last; merge/mergesorted: 0..6 sorted iterators incl. empty ones, shared keys, exact duplicates. Non-trivial: history with >= 4 ops that reads at least once from a non-empty structure (search: n >= 2)."
}

// generic op: kind + small payload
type op struct {
	K string   `json:"k"`
	A []byte   `json:"a,omitempty"`
	B []byte   `json:"b,omitempty"`
	N uint64   `json:"n,omitempty"`
	M uint64   `json:"m,omitempty"`
	L [][]byte `json:"l,omitempty"`
	T uint64   `json:"t,omitempty"` // zipn: tree
}

func mk(st string, name string, params map[string]any, ops []op) *hx.Case {
	p := map[string]any{"mode": "ds", "struct": st}
	for k, v := range params {
		p[k] = v
	}
	raw := make([]json.RawMessage, len(ops))
	for i, o := range ops {
		raw[i] = hx.Op(o)
	}
	return &hx.Case{Name: st + ":" + name, Params: p, Ops: raw}
}

// ---------- generators ----------

var keyPool = [][]byte{{}, {1}, {1, 0}, {1, 0, 0}, {1, 1}, {1, 2}, {1, 255}, {2}, {2, 0}, {0}, {0, 0}, {255}, {255, 255}, {1, 2, 3}, {1, 2, 3, 4}, {97}, {97, 98}, {97, 98, 99}, {98}}

func genKey(r *hx.Rand) []byte {
	switch r.Intn(8) {
	case 0, 1, 2, 3, 4:
		return slices.Clone(hx.Pick(r, keyPool))
	case 5:
		return r.Bytes(r.Intn(4))
	case 6: // extension of a pool key: prefix related
		k := slices.Clone(hx.Pick(r, keyPool))
		return append(k, byte(r.Intn(3)))
	default:
		b := make([]byte, r.Intn(5))
		for i := range b {
			b[i] = byte(r.Intn(3))
		}
		return b
	}
}
func genKeys(r *hx.Rand, max int) [][]byte {
	n := r.Intn(max + 1)
	out := make([][]byte, n)
	for i := range out {
		out[i] = genKey(r)
	}
	return out
}
func genPrio(r *hx.Rand) uint64 {
	if r.Chance(1, 12) {
		return r.U64() >> uint(r.Intn(64))
	}
	return uint64(r.Intn(8))
}

var longHist = false // thorough tier: some long histories

func histLen(r *hx.Rand) int {
	if longHist && r.Chance(1, 8) {
		return r.Range(60, 250)
	}
	switch r.Intn(4) {
	case 0:
		return r.Range(1, 6)
	case 1:
		return r.Range(5, 20)
	default:
		return r.Range(10, 60)
	}
}

func genHeap(r *hx.Rand) *hx.Case {
	var ops []op
	n := histLen(r)
	id := uint64(0)
	pushBias := r.Range(2, 7)
	for i := 0; i < n; i++ {
		switch x := r.Intn(10); {
		case x < pushBias:
			id++
			ops = append(ops, op{K: "push", N: genPrio(r), M: id})
		case x < 7:
			ops = append(ops, op{K: "pop"})
		case x == 7:
			ops = append(ops, op{K: "fix", N: genPrio(r), M: r.U64() % 1000})
		case x == 8:
			ops = append(ops, op{K: hx.Pick(r, []string{"peek", "size", "empty", "fixneg"})})
		default:
			ops = append(ops, op{K: "peek"})
		}
	}
	if r.Bool() { // drain
		for i := 0; i < int(id)+1; i++ {
			ops = append(ops, op{K: "pop"})
		}
	}
	return mk("heap", "rand", nil, ops)
}

func genPPQ(r *hx.Rand) *hx.Case {
	np := r.Intn(6)
	if r.Chance(1, 4) {
		np = r.Range(6, 16)
	}
	var ops []op
	// initial contents as leading "init" ops (partition M gets priority N before construction)
	if np > 0 {
		for i := r.Intn(5); i > 0; i-- {
			ops = append(ops, op{K: "init", N: genPrio(r), M: uint64(r.Intn(np))})
		}
	}
	n := histLen(r)
	pushBias := r.Range(2, 7)
	for i := 0; i < n; i++ {
		switch x := r.Intn(10); {
		case np > 0 && x < pushBias:
			ops = append(ops, op{K: "push", N: genPrio(r), M: uint64(r.Intn(np))})
		case x < 7:
			ops = append(ops, op{K: "pop"})
		case np > 0 && x == 7:
			ops = append(ops, op{K: "delete", N: genPrio(r), M: uint64(r.Intn(np))})
		case x == 8:
			ops = append(ops, op{K: "empty"})
		default:
			ops = append(ops, op{K: "peek"})
		}
	}
	if r.Bool() {
		for i := 0; i < n+6; i++ {
			ops = append(ops, op{K: "pop"})
		}
		ops = append(ops, op{K: "empty"})
	}
	return mk("ppq", "rand", map[string]any{"nparts": np}, ops)
}

func genZip(r *hx.Rand) *hx.Case {
	var ops []op
	n := histLen(r)
	for i := 0; i < n; i++ {
		switch x := r.Intn(10); {
		case x < 5:
			ops = append(ops, op{K: "put", A: genKey(r), B: r.Bytes(r.Intn(3)), N: uint64(r.Intn(6))})
		case x < 7:
			ops = append(ops, op{K: "get", A: genKey(r)})
		case x < 9:
			ops = append(ops, op{K: "ascend", A: genKey(r)})
		case x == 9 && r.Bool():
			ops = append(ops, op{K: "ascendn", A: genKey(r), N: uint64(r.Intn(4))})
		default:
			// one iterator value ranged several times: early breaks first, Puts in between, a complete pass last
			p := genKey(r)
			if r.Bool() {
				p = p[:min(len(p), r.Intn(2))]
			}
			ops = append(ops, op{K: "seq", A: p})
			for j := r.Range(1, 3); j > 0; j-- {
				ops = append(ops, op{K: "range", N: 1000, M: uint64(r.Range(1, 4))})
				if r.Chance(1, 3) {
					ops = append(ops, op{K: "put", A: genKey(r), B: r.Bytes(r.Intn(3)), N: uint64(r.Intn(6))})
				}
			}
			ops = append(ops, op{K: "range", N: 1000, M: 0})
		}
		if r.Chance(1, 10) { // range some older iterator again
			ops = append(ops, op{K: "range", N: r.U64() % 1000, M: uint64(r.Intn(4))})
		}
	}
	ops = append(ops, op{K: "ascend", A: []byte{}})
	return mk("zip", "rand", nil, ops)
}

// several zip trees exchanging node objects
func genZipN(r *hx.Rand) *hx.Case {
	nt := r.Range(1, 3)
	var ops []op
	n := histLen(r)
	tr := func() uint64 { return uint64(r.Intn(nt)) }
	smallKey := func() []byte {
		if r.Chance(1, 3) {
			return genKey(r)
		}
		return slices.Clone(hx.Pick(r, keyPool[:9]))
	}
	for i := 0; i < n; i++ {
		switch x := r.Intn(20); {
		case x < 8:
			ops = append(ops, op{K: "put", T: tr(), A: smallKey(), B: r.Bytes(r.Intn(3)), N: uint64(r.Intn(6))})
		case x < 11:
			ops = append(ops, op{K: "putnode", T: tr(), M: r.U64() % 64, N: uint64(r.Intn(6))})
		case x < 13:
			ops = append(ops, op{K: "putnodekv", T: tr(), M: r.U64() % 64, A: smallKey(), B: r.Bytes(r.Intn(3)), N: uint64(r.Intn(6))})
		case x == 13:
			ops = append(ops, op{K: "reset", T: tr()})
		case x < 16:
			ops = append(ops, op{K: "get", T: tr(), A: smallKey()})
		case x == 16:
			t := tr()
			ops = append(ops, op{K: "seq", T: t, A: nil}, op{K: "range", T: t, N: 1000, M: uint64(r.Intn(3))})
		default:
			ops = append(ops, op{K: "ascend", T: tr(), A: hx.Pick(r, [][]byte{{}, {}, {1}, {2}})})
		}
	}
	for t := 0; t < nt; t++ {
		ops = append(ops, op{K: "ascend", T: uint64(t), A: []byte{}})
	}
	return mk("zipn", "rand", map[string]any{"ntrees": nt}, ops)
}

func genCache(r *hx.Rand) *hx.Case {
	var ops []op
	n := histLen(r)
	pushBias := r.Range(3, 7)
	for i := 0; i < n; i++ {
		switch x := r.Intn(12); {
		case x < pushBias:
			ops = append(ops, op{K: "push", A: genKey(r)})
		case x < 8:
			ops = append(ops, op{K: hx.Pick(r, []string{"pop", "pop", "poplast"})})
		case x < 10:
			ops = append(ops, op{K: "delete", A: genKey(r)})
		case x == 10:
			ops = append(ops, op{K: "peek"})
		default:
			ops = append(ops, op{K: "empty"})
		}
	}
	if r.Bool() {
		for i := 0; i < 8; i++ {
			ops = append(ops, op{K: "pop"})
		}
	}
	return mk("cache", "rand", nil, ops)
}

func genSet(r *hx.Rand) *hx.Case {
	var ops []op
	n := histLen(r)
	for i := 0; i < n; i++ {
		switch x := r.Intn(10); {
		case x < 3:
			ops = append(ops, op{K: "add", L: genKeys(r, 4)})
		case x == 3:
			ops = append(ops, op{K: "added", L: genKeys(r, 3)})
		case x < 6:
			ops = append(ops, op{K: "without", L: genKeys(r, 3)})
		case x == 6:
			ops = append(ops, op{K: "has", A: genKey(r)})
		case x == 7:
			ops = append(ops, op{K: "diff", L: genKeys(r, 4)})
		case x == 8:
			ops = append(ops, op{K: hx.Pick(r, []string{"size", "size", "nil"})})
		default:
			ops = append(ops, op{K: "slice"})
		}
	}
	ops = append(ops, op{K: "slice"})
	return mk("set", "rand", nil, ops)
}

// persistent use of Set: a pool of set values; ops derive new sets from pool members (Added / Without / Diff), create sets with
// spare capacity (NewSet(cap)) or from elements (SetOf), mutate one member in place (Add), and observe EVERY member.
var setElems = [][]byte{{1}, {2}, {3}, {4}, {5}, {1, 0}, {}, {255}}

func genElems(r *hx.Rand, max int) [][]byte {
	n := r.Intn(max + 1)
	out := make([][]byte, n)
	for i := range out {
		if r.Chance(1, 8) {
			out[i] = genKey(r)
		} else {
			out[i] = slices.Clone(hx.Pick(r, setElems))
		}
	}
	return out
}

func genPSet(r *hx.Rand) *hx.Case {
	var ops []op
	n := r.Range(3, 28)
	// start from a base with (usually) spare capacity, as the sst level lists do with NewSet(100)
	switch r.Intn(4) {
	case 0:
		ops = append(ops, op{K: "of", L: genElems(r, 4)})
	default:
		ops = append(ops, op{K: "new", N: uint64(hx.Pick(r, []int{0, 1, 2, 4, 8, 16, 100}))}, op{K: "addin", N: 0, L: genElems(r, 4)})
	}
	for i := 0; i < n; i++ {
		switch x := r.Intn(20); {
		case x < 7:
			ops = append(ops, op{K: "added", N: r.U64() % 64, L: genElems(r, 3)})
		case x < 10:
			ops = append(ops, op{K: "without", N: r.U64() % 64, L: genElems(r, 3)})
		case x < 12:
			ops = append(ops, op{K: "diff", N: r.U64() % 64, M: r.U64() % 64})
		case x < 15:
			ops = append(ops, op{K: "addin", N: r.U64() % 64, L: genElems(r, 3)})
		case x == 15:
			ops = append(ops, op{K: "new", N: uint64(hx.Pick(r, []int{0, 1, 3, 8, 100}))})
		case x == 16:
			ops = append(ops, op{K: "of", L: genElems(r, 4)})
		case x == 17:
			ops = append(ops, op{K: "seq", N: r.U64() % 64}, op{K: "range", N: 1000, M: uint64(r.Range(1, 3))})
		case x == 18:
			ops = append(ops, op{K: "range", N: r.U64() % 1000, M: uint64(r.Intn(3))})
		default:
			ops = append(ops, op{K: "obs"})
		}
	}
	ops = append(ops, op{K: "obs"})
	return mk("pset", "rand", nil, ops)
}

func genSMap(r *hx.Rand) *hx.Case {
	var ops []op
	n := histLen(r)
	for i := 0; i < n; i++ {
		switch x := r.Intn(12); {
		case x < 5:
			ops = append(ops, op{K: "set", A: genKey(r), N: uint64(r.Intn(100))})
		case x < 7:
			ops = append(ops, op{K: "delete", A: genKey(r)})
		case x == 7:
			ops = append(ops, op{K: "get", A: genKey(r)})
		case x == 8:
			ops = append(ops, op{K: "has", A: genKey(r)})
		case x == 9:
			ops = append(ops, op{K: hx.Pick(r, []string{"keys", "values", "size"})})
		case x == 10:
			ops = append(ops, op{K: "seq"}, op{K: "range", N: 1000, M: uint64(r.Range(1, 3))})
			if r.Bool() {
				ops = append(ops, op{K: "set", A: genKey(r), N: uint64(r.Intn(100))})
			}
			ops = append(ops, op{K: "range", N: 1000, M: 0})
		default:
			if r.Chance(1, 4) {
				ops = append(ops, op{K: "range", N: r.U64() % 1000, M: uint64(r.Intn(3))})
			}
			ops = append(ops, op{K: "all"})
		}
	}
	ops = append(ops, op{K: "all"})
	return mk("smap", "rand", nil, ops)
}

// merge: ops are items (iterator M, key A, seq N); each iterator is sorted by key when the case is executed
func genMerge(r *hx.Rand, st string) *hx.Case {
	k := r.Intn(7)
	var ops []op
	seq := uint64(0)
	for it := 0; it < k; it++ {
		n := r.Intn(7)
		if r.Chance(1, 5) {
			n = 0
		}
		for j := 0; j < n; j++ {
			seq++
			o := op{K: "item", M: uint64(it), A: genKey(r), N: seq}
			if st == "msorted" {
				o.A = nil
				o.B = []byte{byte(r.Intn(6))}
			}
			ops = append(ops, o)
			if r.Chance(1, 10) { // exact duplicate (same key and sequence number) in another iterator
				d := o
				d.M = uint64(r.Intn(k))
				ops = append(ops, d)
			}
		}
	}
	hx.Shuffle(r, ops)
	lim := 0
	if r.Chance(1, 4) {
		lim = r.Range(1, 6) // the consumer stops after lim items
	}
	return mk(st, "rand", map[string]any{"iters": k, "limit": lim}, ops)
}

func searchCases(tier string, r *hx.Rand) []*hx.Case {
	var cs []*hx.Case
	maxN := 9
	if tier == "thorough" {
		maxN = 24
	}
	for n := 0; n <= maxN; n++ {
		// ints 1,3,5..: targets 0..2n cover every element, every gap, below and above
		for t := 0; t <= 2*n; t++ {
			cs = append(cs, mk("search", fmt.Sprintf("n%d-t%d", n, t), map[string]any{"n": n, "target": t, "kind": "int"}, nil))
		}
	}
	for n := 0; n <= maxN && n <= 12; n++ {
		for t := 0; t <= 4*n; t++ {
			cs = append(cs, mk("search", fmt.Sprintf("range-n%d-t%d", n, t), map[string]any{"n": n, "target": t, "kind": "range"}, nil))
		}
	}
	for i := 0; i < 40; i++ {
		n := r.Range(10, 400)
		cs = append(cs, mk("search", "rand", map[string]any{"n": n, "target": r.Intn(2*n + 1), "kind": "int"}, nil))
		cs = append(cs, mk("search", "rand-range", map[string]any{"n": n, "target": r.Intn(4*n + 1), "kind": "range"}, nil))
	}
	return cs
}

func (eng) Generate(mode, tier string, r *hx.Rand) []*hx.Case {
	cs := searchCases(tier, r)
	per := 250
	if tier == "thorough" {
		per = 5000
		longHist = true
	}
	for i := 0; i < per; i++ {
		cs = append(cs, genHeap(r.Fork()), genPPQ(r.Fork()), genZip(r.Fork()), genZipN(r.Fork()), genCache(r.Fork()), genSet(r.Fork()), genPSet(r.Fork()), genSMap(r.Fork()),
			genMerge(r.Fork(), "merge"), genMerge(r.Fork(), "msorted"))
	}
	mags := []int{1, 1, 2, 7, 1000003}
	for i, c := range cs {
		switch c.Params["struct"] {
		case "search":
			c.Params["mag"] = mags[i%len(mags)]
		case "heap", "ppq", "merge", "msorted":
			c.Params["mag"] = hx.Pick(r, mags)
		}
	}
	return cs
}

// ---------- execution ----------

func pint(p map[string]any, k string) int {
	switch v := p[k].(type) {
	case float64:
		return int(v)
	case int:
		return v
	}
	return 0
}

func optBytes(b []byte, ok bool) string {
	if !ok {
		return "(@None bytes)"
	}
	return "(Some " + hx.CoqBytes(b) + ")"
}
func optN(v uint64, ok bool) string {
	if !ok {
		return "(@None N)"
	}
	return "(Some " + hx.CoqN(v) + ")"
}
func optPair(a, b uint64, ok bool) string {
	if !ok {
		return "(@None (N * N))"
	}
	return "(Some (" + hx.CoqN(a) + ", " + hx.CoqN(b) + "))"
}
func bytesList(l [][]byte) string {
	items := make([]string, len(l))
	for i, b := range l {
		items[i] = hx.CoqBytes(b)
	}
	return hx.CoqList(items, "bytes")
}

func decodeOps(c *hx.Case) ([]op, error) {
	ops := make([]op, len(c.Ops))
	for i, raw := range c.Ops {
		if err := json.Unmarshal(raw, &ops[i]); err != nil {
			return nil, err
		}
	}
	return ops, nil
}

type hitem struct {
	prio, id uint64
	index    int
}

type pitem struct {
	prio uint64
	part int
}
type part struct {
	items []pitem
	idx   int
}

func (p *part) Peek() (pitem, bool) {
	if len(p.items) == 0 {
		return pitem{}, false
	}
	return p.items[0], true
}
func (p *part) Pop() (pitem, bool) {
	if len(p.items) == 0 {
		return pitem{}, false
	}
	x := p.items[0]
	p.items = p.items[1:]
	return x, true
}
func (p *part) Push(x pitem) {
	i := sort.Search(len(p.items), func(i int) bool { return p.items[i].prio >= x.prio })
	p.items = slices.Insert(p.items, i, x)
}
func (p *part) IsEmpty() bool { return len(p.items) == 0 }
func (p *part) Delete(x pitem) {
	for i, y := range p.items {
		if y.prio == x.prio {
			p.items = slices.Delete(p.items, i, i+1)
			return
		}
	}
}
func (p *part) AssignIndex(i int) { p.idx = i }
func (p *part) Index() int        { return p.idx }

type mitem struct {
	Key string
	Seq uint64
	Val uint64
}
type sitem struct{ K, Tag uint64 }

var hung = map[string]bool{}

// cpuSeconds is the CPU time (user + system) this process has consumed so far.
func cpuSeconds() float64 {
	var ru syscall.Rusage
	if err := syscall.Getrusage(syscall.RUSAGE_SELF, &ru); err != nil {
		return 0
	}
	return float64(ru.Utime.Sec+ru.Stime.Sec) + float64(ru.Utime.Usec+ru.Stime.Usec)/1e6
}

// Execute runs one case under a watchdog: a non-terminating implementation is reported like a panic (with the case as replay).
//
// Timing: the watchdog does not measure elapsed time but the CPU time the process has CONSUMED since the case started (polled
// every 250 ms): a history of a few dozen operations on an in-memory structure needs milliseconds of CPU, so 20 s of CPU spent
// inside one case means the implementation loops. A case that is merely starved by other processes consumes no CPU while it
// waits and can therefore never be declared non-terminating, whatever the load (hx's 180 s no-progress detector stays behind it).
func (e eng) Execute(mode string, c *hx.Case) (*hx.Result, error) {
	type out struct {
		res *hx.Result
		err error
		pan any
	}
	stName, _ := c.Params["struct"].(string)
	if hung[stName] {
		panic("skipped: an earlier history on this structure did not terminate")
	}
	ch := make(chan out, 1)
	go func() {
		var o out
		defer func() {
			if p := recover(); p != nil {
				o.pan = p
			}
			ch <- o
		}()
		o.res, o.err = e.execute(mode, c)
	}()
	start := cpuSeconds()
	tick := time.NewTicker(250 * time.Millisecond) // pacing of the poll only
	defer tick.Stop()
	for {
		select {
		case o := <-ch:
			if o.pan != nil {
				panic(o.pan)
			}
			return o.res, o.err
		case <-tick.C:
			if cpuSeconds()-start > 20 {
				hung[stName] = true
				panic("the implementation consumed more than 20 s of CPU on this history without terminating")
			}
		}
	}
}

func (eng) execute(mode string, c *hx.Case) (*hx.Result, error) {
	st, _ := c.Params["struct"].(string)
	ops, err := decodeOps(c)
	if err != nil {
		return nil, err
	}
	var terms []string
	var obs []any
	tags := []string{"struct=" + st}
	reads := 0 // reads from a non-empty structure
	// comparators: only the SIGN of the result is part of the three-way contract; ours return mag * (-1 | 0 | +1)
	mag := max(1, pint(c.Params, "mag"))
	if mag > 1 {
		tags = append(tags, "comparator-magnitude>1")
	}
	add := func(term string, o any) { terms = append(terms, term); obs = append(obs, o) }
	lenTag := func() string {
		switch n := len(ops); {
		case n == 0:
			return st + ":ops=0"
		case n < 4:
			return st + ":ops<4"
		case n <= 20:
			return st + ":ops<=20"
		default:
			return st + ":ops>20"
		}
	}
	switch st {
	case "search":
		n, t, kind := pint(c.Params, "n"), pint(c.Params, "target"), c.Params["kind"]
		if kind == "range" {
			// tables i = [ (4i+1) , (4i+2) ] as 2-byte big endian keys; target t as key
			type tbl struct{ s, e []byte }
			key := func(v int) []byte { return []byte{byte(v >> 8), byte(v)} }
			xs := make([]tbl, n)
			items := make([]string, n)
			for i := range xs {
				xs[i] = tbl{key(4*i + 1), key(4*i + 2)}
				items[i] = hx.CoqPair(hx.CoqBytes(xs[i].s), hx.CoqBytes(xs[i].e))
			}
			idx, ok := sliceu.SearchUnique(xs, key(t), func(x tbl, k []byte) int {
				if bytes.Compare(x.s, k) == 1 {
					return mag
				}
				if bytes.Compare(x.e, k) == -1 {
					return -mag
				}
				return 0
			})
			term := fmt.Sprintf("CSearchRange %s %s %s %s", hx.CoqList(items, "bytes * bytes"), hx.CoqBytes(key(t)), hx.CoqN(uint64(idx)), hx.CoqBool(ok))
			return &hx.Result{Term: term, Nontrivial: n >= 2, Tags: append(tags, fmt.Sprintf("search:found=%v", ok)), Observed: map[string]any{"idx": idx, "ok": ok}}, nil
		}
		xs := make([]int, n)
		items := make([]string, n)
		for i := range xs {
			xs[i] = 2*i + 1
			items[i] = hx.CoqN(uint64(xs[i]))
		}
		idx, ok := sliceu.SearchUnique(xs, t, func(a, b int) int { return mag * cmp.Compare(a, b) })
		term := fmt.Sprintf("CSearch %s %s %s %s", hx.CoqList(items, "N"), hx.CoqN(uint64(t)), hx.CoqN(uint64(idx)), hx.CoqBool(ok))
		return &hx.Result{Term: term, Nontrivial: n >= 2, Tags: append(tags, fmt.Sprintf("search:found=%v", ok)), Observed: map[string]any{"idx": idx, "ok": ok}}, nil

	case "heap":
		h := ds.NewHeap(func(a, b *hitem) int { return mag * cmp.Compare(a.prio, b.prio) }, 4)
		h.SetIndexAssigner(func(x *hitem, i int) { x.index = i })
		live := map[uint64]*hitem{}
		eq := 0
		for _, o := range ops {
			switch o.K {
			case "push":
				if _, dup := live[o.M]; dup {
					continue
				}
				for _, it := range live {
					if it.prio == o.N {
						eq++
						break
					}
				}
				it := &hitem{prio: o.N, id: o.M, index: -7}
				live[o.M] = it
				h.Push(it)
				add(fmt.Sprintf("HPush %d %d", o.N, o.M), nil)
			case "pop":
				x, ok := h.Pop()
				if ok {
					delete(live, x.id)
					reads++
					add("HPop "+optPair(x.prio, x.id, true), []uint64{x.prio, x.id})
				} else {
					add("HPop "+optPair(0, 0, false), nil)
				}
			case "peek":
				x, ok := h.Peek()
				if ok {
					reads++
					add("HPeek "+optPair(x.prio, x.id, true), []uint64{x.prio, x.id})
				} else {
					add("HPeek "+optPair(0, 0, false), nil)
				}
			case "size":
				add(fmt.Sprintf("HSize %d", h.Size()), h.Size())
			case "empty":
				add("HEmpty "+hx.CoqBool(h.IsEmpty()), h.IsEmpty())
			case "fixneg":
				h.Fix(-1)
				add("HFixNeg", nil)
			case "fix":
				if len(live) == 0 {
					continue
				}
				ids := make([]uint64, 0, len(live))
				for id := range live {
					ids = append(ids, id)
				}
				slices.Sort(ids)
				it := live[ids[int(o.M)%len(ids)]]
				it.prio = o.N
				h.Fix(it.index)
				add(fmt.Sprintf("HFix %d %d", it.id, o.N), it.id)
			}
		}
		if eq > 0 {
			tags = append(tags, "heap:equal-priorities")
		}
		if len(live) == 0 && len(terms) > 0 {
			tags = append(tags, "heap:ends-empty")
		}
		return &hx.Result{Term: "CHeap " + hx.CoqList(terms, "heap_op"), Nontrivial: len(terms) >= 4 && reads > 0, Tags: append(tags, lenTag()), Observed: obs}, nil

	case "ppq":
		np := pint(c.Params, "nparts")
		parts := make([]*part, np)
		qp := make([]ds.QueuePartition[pitem], np)
		for i := range parts {
			parts[i] = &part{idx: -7}
			qp[i] = parts[i]
		}
		initTerms := make([][]string, np)
		i0 := 0
		for i0 < len(ops) && ops[i0].K == "init" {
			o := ops[i0]
			i0++
			if int(o.M) >= np {
				continue
			}
			parts[o.M].Push(pitem{o.N, int(o.M)})
		}
		for i, p := range parts {
			for _, x := range p.items {
				initTerms[i] = append(initTerms[i], hx.CoqN(x.prio))
			}
		}
		q := ds.NewPartitionedPriorityQueue(qp, func(a, b pitem) int { return mag * cmp.Compare(a.prio, b.prio) }, func(x pitem) int { return x.part })
		for _, o := range ops[i0:] {
			switch o.K {
			case "push":
				if int(o.M) >= np {
					continue
				}
				q.Push(pitem{o.N, int(o.M)})
				add(fmt.Sprintf("QPush %d %d", o.N, o.M), nil)
			case "delete":
				if int(o.M) >= np {
					continue
				}
				q.Delete(pitem{o.N, int(o.M)})
				add(fmt.Sprintf("QDelete %d %d", o.N, o.M), nil)
			case "pop":
				x, ok := q.Pop()
				if ok {
					reads++
				}
				add("QPop "+optPair(x.prio, uint64(x.part), ok), []any{x.prio, x.part, ok})
			case "peek":
				x, ok := q.Peek()
				if ok {
					reads++
				}
				add("QPeek "+optN(x.prio, ok), []any{x.prio, ok})
			case "empty":
				add("QEmpty "+hx.CoqBool(q.IsEmpty()), q.IsEmpty())
			}
		}
		its := make([]string, np)
		for i := range its {
			its[i] = hx.CoqList(initTerms[i], "N")
		}
		tags = append(tags, fmt.Sprintf("ppq:parts=%d", min(np, 6)))
		return &hx.Result{Term: "CPPQ " + hx.CoqList(its, "list N") + " " + hx.CoqList(terms, "ppq_op"), Nontrivial: len(terms) >= 4 && reads > 0, Tags: append(tags, lenTag()), Observed: obs}, nil

	case "zip", "zipn":
		// zipn: several trees; node OBJECTS that were part of a tree before (the node Put returned as replaced, the nodes of
		// a tree that was given up) are Put again, as they are or with another key/value, into any tree.
		ntrees := 1
		if st == "zipn" {
			ntrees = max(1, pint(c.Params, "ntrees"))
		}
		trees := make([]*ziptree.ZipTree, ntrees)
		allSeqs := make([][]iter.Seq[*ziptree.Node], ntrees)
		for i := range trees {
			trees[i] = ziptree.New()
		}
		var detached []*ziptree.Node
		replaced, reusedNodes := 0, 0
		reranged := false
		for _, o := range ops {
			ti := int(o.T % uint64(ntrees))
			t := trees[ti]
			zseqs := allSeqs[ti]
			add := func(term string, ob any) {
				if st == "zipn" {
					term = fmt.Sprintf("ZOn %d (%s)", ti, term)
				}
				add(term, ob)
			}
			switch o.K {
			case "reset":
				if st != "zipn" {
					continue
				}
				for n := range t.AscendPrefix(nil) {
					detached = append(detached, n)
				}
				trees[ti] = ziptree.New()
				allSeqs[ti] = nil
				terms = append(terms, fmt.Sprintf("ZReset %d", ti))
				obs = append(obs, nil)
			case "putnode", "putnodekv":
				if len(detached) == 0 {
					continue
				}
				di := int(o.M % uint64(len(detached)))
				nd := detached[di]
				detached = slices.Delete(detached, di, di+1)
				if o.K == "putnodekv" {
					nd.Key, nd.Value = slices.Clone(o.A), slices.Clone(o.B)
				}
				k, v := slices.Clone(nd.Key), slices.Clone(nd.Value)
				old := t.Put(nd)
				reusedNodes++
				if old != nil {
					replaced++
					detached = append(detached, old)
					add(fmt.Sprintf("ZPut %s %s %d %s", hx.CoqBytes(k), hx.CoqBytes(v), o.N, optBytes(old.Value, true)), old.Value)
				} else {
					add(fmt.Sprintf("ZPut %s %s %d %s", hx.CoqBytes(k), hx.CoqBytes(v), o.N, optBytes(nil, false)), nil)
				}
			case "put":
				old := t.Put(ziptree.NewNode(slices.Clone(o.A), slices.Clone(o.B), nil))
				if old != nil {
					replaced++
					if st == "zipn" {
						detached = append(detached, old)
					}
					add(fmt.Sprintf("ZPut %s %s %d %s", hx.CoqBytes(o.A), hx.CoqBytes(o.B), o.N, optBytes(old.Value, true)), old.Value)
				} else {
					add(fmt.Sprintf("ZPut %s %s %d %s", hx.CoqBytes(o.A), hx.CoqBytes(o.B), o.N, optBytes(nil, false)), nil)
				}
			case "get":
				n, ok := t.Get(o.A)
				if ok {
					reads++
					add(fmt.Sprintf("ZGet %s (Some (%s, %s))", hx.CoqBytes(o.A), hx.CoqBytes(n.Key), hx.CoqBytes(n.Value)), [2][]byte{n.Key, n.Value})
				} else {
					add(fmt.Sprintf("ZGet %s (@None (bytes * bytes))", hx.CoqBytes(o.A)), nil)
				}
			case "seq":
				allSeqs[ti] = append(zseqs, t.AscendPrefix(slices.Clone(o.A)))
				add("ZSeq "+hx.CoqBytes(o.A), nil)
			case "range":
				if len(zseqs) == 0 {
					continue
				}
				i := len(zseqs) - 1 // N = 1000: the newest iterator
				if o.N != 1000 {
					i = int(o.N % uint64(len(zseqs)))
				}
				var items []string
				var ob [][2][]byte
				for n := range zseqs[i] {
					items = append(items, hx.CoqPair(hx.CoqBytes(n.Key), hx.CoqBytes(n.Value)))
					ob = append(ob, [2][]byte{n.Key, n.Value})
					if o.M > 0 && uint64(len(items)) >= o.M {
						break
					}
				}
				if len(items) > 0 {
					reads++
				}
				reranged = true
				add(fmt.Sprintf("ZRange %d %d %s", i, o.M, hx.CoqList(items, "bytes * bytes")), ob)
			case "ascend", "ascendn":
				var items []string
				var ob [][2][]byte
				lim := -1
				if o.K == "ascendn" {
					lim = int(o.N)
				}
				cnt := 0
				for n := range t.AscendPrefix(o.A) {
					items = append(items, hx.CoqPair(hx.CoqBytes(n.Key), hx.CoqBytes(n.Value)))
					ob = append(ob, [2][]byte{n.Key, n.Value})
					cnt++
					if lim >= 0 && cnt > lim {
						break
					}
				}
				if cnt > 0 {
					reads++
				}
				if lim >= 0 {
					add(fmt.Sprintf("ZAscendN %s %d %s", hx.CoqBytes(o.A), lim+1, hx.CoqList(items, "bytes * bytes")), ob)
				} else {
					add(fmt.Sprintf("ZAscend %s %s", hx.CoqBytes(o.A), hx.CoqList(items, "bytes * bytes")), ob)
				}
			}
		}
		if replaced > 0 {
			tags = append(tags, "zip:replaced")
		}
		if reranged {
			tags = append(tags, "zip:iterator-ranged-again")
		}
		if reusedNodes > 0 {
			tags = append(tags, "zip:node-objects-reused")
		}
		if st == "zipn" {
			return &hx.Result{Term: fmt.Sprintf("CZipN %d ", ntrees) + hx.CoqList(terms, "zipn_op"), Nontrivial: len(terms) >= 4 && reads > 0 && reusedNodes > 0, Tags: append(tags, lenTag()), Observed: obs}, nil
		}
		return &hx.Result{Term: "CZip " + hx.CoqList(terms, "zip_op"), Nontrivial: len(terms) >= 4 && reads > 0, Tags: append(tags, lenTag()), Observed: obs}, nil

	case "cache":
		// the same history on caches with maxSizeBytes 1..sizeProbe: the number that report IsFull is min(byteSize, sizeProbe)
		const sizeProbe = 48
		cs := make([]*ds.SortedCache, sizeProbe)
		for i := range cs {
			cs[i] = ds.NewSortedCache(uint64(i + 1))
		}
		c0 := cs[0]
		size := func() uint64 {
			n := uint64(0)
			for _, c := range cs {
				if c.IsFull() {
					n++
				}
			}
			return n
		}
		dupPush := false
		present := map[string]bool{}
		for _, o := range ops {
			switch o.K {
			case "push":
				if present[string(o.A)] {
					dupPush = true
				}
				present[string(o.A)] = true
				for _, c := range cs {
					c.Push(slices.Clone(o.A))
				}
				add(fmt.Sprintf("KPush %s %d", hx.CoqBytes(o.A), size()), size())
			case "pop", "poplast":
				var v []byte
				var ok bool
				for _, c := range cs {
					if o.K == "pop" {
						v, ok = c.Pop()
					} else {
						v, ok = c.PopLast()
					}
				}
				if ok {
					reads++
					delete(present, string(v))
				}
				ctor := "KPop"
				if o.K == "poplast" {
					ctor = "KPopLast"
				}
				add(fmt.Sprintf("%s %s %d", ctor, optBytes(v, ok), size()), []any{v, ok, size()})
			case "peek":
				v, ok := c0.Peek()
				if ok {
					reads++
				}
				add(fmt.Sprintf("KPeek %s", optBytes(v, ok)), []any{v, ok})
			case "delete":
				for _, c := range cs {
					c.Delete(o.A)
				}
				delete(present, string(o.A))
				add(fmt.Sprintf("KDelete %s %d", hx.CoqBytes(o.A), size()), size())
			case "empty":
				add("KEmpty "+hx.CoqBool(c0.IsEmpty()), c0.IsEmpty())
			}
		}
		if dupPush {
			tags = append(tags, "cache:push-of-present-value")
		}
		return &hx.Result{Term: fmt.Sprintf("CCache %d %s", sizeProbe, hx.CoqList(terms, "cache_op")), Nontrivial: len(terms) >= 4 && reads > 0, Tags: append(tags, lenTag()), Observed: obs}, nil

	case "set":
		s := ds.NewSet[string](0)
		strs := func(l [][]byte) []string {
			out := make([]string, len(l))
			for i, b := range l {
				out[i] = string(b)
			}
			return out
		}
		sl := func(x *ds.Set[string]) [][]byte {
			var out [][]byte
			for _, v := range x.Slice() {
				out = append(out, []byte(v))
			}
			return out
		}
		for _, o := range ops {
			switch o.K {
			case "add":
				s.Add(strs(o.L)...)
				add("SAdd "+bytesList(o.L), nil)
			case "added":
				n := s.Added(strs(o.L)...)
				old := sl(s)
				s = n
				add(fmt.Sprintf("SAdded %s %s", bytesList(o.L), bytesList(old)), old)
			case "without":
				n := s.Without(strs(o.L)...)
				old := sl(s)
				s = n
				add(fmt.Sprintf("SWithout %s %s", bytesList(o.L), bytesList(old)), old)
			case "has":
				b := s.Has(string(o.A))
				if b {
					reads++
				}
				add(fmt.Sprintf("SHas %s %s", hx.CoqBytes(o.A), hx.CoqBool(b)), b)
			case "size":
				add(fmt.Sprintf("SSize %d", s.Size()), s.Size())
			case "nil":
				var ns *ds.Set[string]
				cnt := 0
				for range ns.All() {
					cnt++
				}
				add(fmt.Sprintf("SNil %d %d", ns.Size(), cnt), []int{ns.Size(), cnt})
			case "slice":
				var viaAll [][]byte
				for v := range s.All() {
					viaAll = append(viaAll, []byte(v))
				}
				if len(viaAll) > 0 {
					reads++
				}
				add(fmt.Sprintf("SSlice %s %s", bytesList(sl(s)), bytesList(viaAll)), sl(s))
			case "diff":
				d := s.Diff(ds.SetOf(strs(o.L)...))
				add(fmt.Sprintf("SDiff %s %s", bytesList(o.L), bytesList(sl(d))), sl(d))
			}
		}
		return &hx.Result{Term: "CSet " + hx.CoqList(terms, "set_op"), Nontrivial: len(terms) >= 4 && reads > 0, Tags: append(tags, lenTag()), Observed: obs}, nil

	case "pset":
		strs := func(l [][]byte) []string {
			out := make([]string, len(l))
			for i, b := range l {
				out[i] = string(b)
			}
			return out
		}
		// universe: every element mentioned in the case plus one that never is
		seen := map[string]bool{"\x07absent": true}
		for _, o := range ops {
			for _, b := range o.L {
				seen[string(b)] = true
			}
		}
		var univ []string
		for k := range seen {
			univ = append(univ, k)
		}
		slices.Sort(univ)
		univB := make([][]byte, len(univ))
		for i, k := range univ {
			univB[i] = []byte(k)
		}
		var pool []*ds.Set[string]
		var sseqs []iter.Seq[string]
		derived, spare := 0, false
		for _, o := range ops {
			pick := func(x uint64) int { return int(x % uint64(len(pool))) }
			switch o.K {
			case "new":
				pool = append(pool, ds.NewSet[string](int(o.N)))
				if o.N > 0 {
					spare = true
				}
				add(fmt.Sprintf("PNew %d", o.N), nil)
			case "of":
				pool = append(pool, ds.SetOf(strs(o.L)...))
				add("POf "+bytesList(o.L), nil)
			case "addin":
				if len(pool) == 0 {
					continue
				}
				i := pick(o.N)
				pool[i].Add(strs(o.L)...)
				add(fmt.Sprintf("PAddInPlace %d %s", i, bytesList(o.L)), i)
			case "added":
				if len(pool) == 0 {
					continue
				}
				i := pick(o.N)
				pool = append(pool, pool[i].Added(strs(o.L)...))
				derived++
				add(fmt.Sprintf("PAdded %d %s", i, bytesList(o.L)), i)
			case "without":
				if len(pool) == 0 {
					continue
				}
				i := pick(o.N)
				pool = append(pool, pool[i].Without(strs(o.L)...))
				derived++
				add(fmt.Sprintf("PWithout %d %s", i, bytesList(o.L)), i)
			case "diff":
				if len(pool) == 0 {
					continue
				}
				i, j := pick(o.N), pick(o.M)
				pool = append(pool, pool[i].Diff(pool[j]))
				derived++
				add(fmt.Sprintf("PDiff %d %d", i, j), []int{i, j})
			case "seq":
				if len(pool) == 0 {
					continue
				}
				i := pick(o.N)
				sseqs = append(sseqs, pool[i].All())
				add(fmt.Sprintf("PSeq %d", i), i)
			case "range":
				if len(sseqs) == 0 {
					continue
				}
				k := len(sseqs) - 1
				if o.N != 1000 {
					k = int(o.N % uint64(len(sseqs)))
				}
				var got [][]byte
				for v := range sseqs[k] {
					got = append(got, []byte(v))
					if o.M > 0 && uint64(len(got)) >= o.M {
						break
					}
				}
				add(fmt.Sprintf("PRange %d %d %s", k, o.M, bytesList(got)), got)
			case "obs":
				items := make([]string, len(pool))
				var ob []any
				for k, st := range pool {
					var sl, all [][]byte
					for _, v := range st.Slice() {
						sl = append(sl, []byte(v))
					}
					for v := range st.All() {
						all = append(all, []byte(v))
					}
					has := make([]string, len(univ))
					for u, v := range univ {
						has[u] = hx.CoqBool(st.Has(v))
					}
					if len(sl) > 0 {
						reads++
					}
					items[k] = fmt.Sprintf("(%s, %s, %s, %s)", bytesList(sl), bytesList(all), hx.CoqN(uint64(st.Size())), hx.CoqList(has, "bool"))
					ob = append(ob, sl)
				}
				add("PObs "+hx.CoqList(items, "list bytes * list bytes * N * list bool"), ob)
			}
		}
		if spare {
			tags = append(tags, "pset:base-with-spare-capacity")
		}
		tags = append(tags, fmt.Sprintf("pset:derived=%d", min(derived/4*4, 12)))
		return &hx.Result{Term: "CPSet " + bytesList(univB) + " " + hx.CoqList(terms, "pset_op"), Nontrivial: len(terms) >= 4 && reads > 0 && derived >= 2, Tags: append(tags, lenTag()), Observed: obs}, nil

	case "smap":
		m := ds.NewSortedMap[string, uint64]()
		var mseqs []iter.Seq2[string, uint64]
		for _, o := range ops {
			switch o.K {
			case "set":
				isNew := m.Set(string(o.A), o.N)
				add(fmt.Sprintf("MSet %s %d %s", hx.CoqBytes(o.A), o.N, hx.CoqBool(isNew)), isNew)
			case "delete":
				rm := m.Delete(string(o.A))
				add(fmt.Sprintf("MDelete %s %s", hx.CoqBytes(o.A), hx.CoqBool(rm)), rm)
			case "get":
				v, ok := m.Get(string(o.A))
				if ok {
					reads++
				}
				add(fmt.Sprintf("MGet %s %s", hx.CoqBytes(o.A), optN(v, ok)), []any{v, ok})
			case "has":
				add(fmt.Sprintf("MHas %s %s", hx.CoqBytes(o.A), hx.CoqBool(m.Has(string(o.A)))), m.Has(string(o.A)))
			case "size":
				add(fmt.Sprintf("MSize %d", m.Size()), m.Size())
			case "keys":
				var l [][]byte
				for _, k := range m.Keys() {
					l = append(l, []byte(k))
				}
				add("MKeys "+bytesList(l), l)
			case "values":
				var items []string
				for _, v := range m.Values() {
					items = append(items, hx.CoqN(v))
				}
				add("MValues "+hx.CoqList(items, "N"), m.Values())
			case "seq":
				mseqs = append(mseqs, m.All())
			case "range":
				if len(mseqs) == 0 {
					continue
				}
				k := len(mseqs) - 1
				if o.N != 1000 {
					k = int(o.N % uint64(len(mseqs)))
				}
				var items []string
				for key, v := range mseqs[k] {
					items = append(items, hx.CoqPair(hx.CoqBytes([]byte(key)), hx.CoqN(v)))
					if o.M > 0 && uint64(len(items)) >= o.M {
						break
					}
				}
				if len(items) > 0 {
					reads++
				}
				add(fmt.Sprintf("MRange %d %s", o.M, hx.CoqList(items, "bytes * N")), len(items))
			case "all":
				var items []string
				for k, v := range m.All() {
					items = append(items, hx.CoqPair(hx.CoqBytes([]byte(k)), hx.CoqN(v)))
				}
				if len(items) > 0 {
					reads++
				}
				add("MAll "+hx.CoqList(items, "bytes * N"), len(items))
			}
		}
		return &hx.Result{Term: "CSMap " + hx.CoqList(terms, "smap_op"), Nontrivial: len(terms) >= 4 && reads > 0, Tags: append(tags, lenTag()), Observed: obs}, nil

	case "merge":
		k := pint(c.Params, "iters")
		lim := pint(c.Params, "limit")
		lists := make([][]mitem, k)
		for _, o := range ops {
			if int(o.M) < k {
				lists[o.M] = append(lists[o.M], mitem{Key: string(o.A), Seq: o.N, Val: o.N * 3})
			}
		}
		its := make([]iter.Seq[mitem], k)
		inTerms := make([]string, k)
		shared := false
		seen := map[string]int{}
		for i := range lists {
			slices.SortStableFunc(lists[i], func(a, b mitem) int { return strings.Compare(a.Key, b.Key) })
			its[i] = slices.Values(lists[i])
			items := make([]string, len(lists[i]))
			for j, x := range lists[i] {
				items[j] = mitemTerm(x)
				if s, ok := seen[x.Key]; ok && s != i {
					shared = true
				}
				seen[x.Key] = i
			}
			inTerms[i] = hx.CoqList(items, "bytes * N * N")
		}
		var out []string
		var ob []mitem
		for x := range mergesort.Merge(its, func(a, b mitem) int { return mag * strings.Compare(a.Key, b.Key) }, func(a, b mitem) mitem {
			if a.Seq > b.Seq {
				return a
			}
			return b
		}) {
			out = append(out, mitemTerm(x))
			ob = append(ob, x)
			if lim > 0 && len(out) >= lim {
				break
			}
		}
		if shared {
			tags = append(tags, "merge:key-in-several-iterators")
		}
		if lim > 0 {
			tags = append(tags, "merge:consumer-stops-early")
		}
		return &hx.Result{Term: fmt.Sprintf("CMerge %d ", lim) + hx.CoqList(inTerms, "list (bytes * N * N)") + " " + hx.CoqList(out, "bytes * N * N"), Nontrivial: len(ops) >= 4 && k >= 2, Tags: append(tags, lenTag()), Observed: ob}, nil

	case "msorted":
		k := pint(c.Params, "iters")
		lim := pint(c.Params, "limit")
		lists := make([][]sitem, k)
		for _, o := range ops {
			if int(o.M) < k && len(o.B) > 0 {
				lists[o.M] = append(lists[o.M], sitem{K: uint64(o.B[0]), Tag: o.N})
			}
		}
		its := make([]iter.Seq[sitem], k)
		inTerms := make([]string, k)
		for i := range lists {
			slices.SortStableFunc(lists[i], func(a, b sitem) int { return cmp.Compare(a.K, b.K) })
			its[i] = slices.Values(lists[i])
			items := make([]string, len(lists[i]))
			for j, x := range lists[i] {
				items[j] = hx.CoqPair(hx.CoqN(x.K), hx.CoqN(x.Tag))
			}
			inTerms[i] = hx.CoqList(items, "N * N")
		}
		var out []string
		var ob []sitem
		for x := range iteru.MergeSorted(its, func(a, b sitem) int { return mag * cmp.Compare(a.K, b.K) }) {
			out = append(out, hx.CoqPair(hx.CoqN(x.K), hx.CoqN(x.Tag)))
			ob = append(ob, x)
			if lim > 0 && len(out) >= lim {
				break
			}
		}
		return &hx.Result{Term: fmt.Sprintf("CMergeSorted %d ", lim) + hx.CoqList(inTerms, "list (N * N)") + " " + hx.CoqList(out, "N * N"), Nontrivial: len(ops) >= 4 && k >= 2, Tags: append(tags, lenTag()), Observed: ob}, nil
	}
	return nil, fmt.Errorf("unknown struct %q", st)
}

func mitemTerm(x mitem) string {
	return "(" + hx.CoqBytes([]byte(x.Key)) + ", " + hx.CoqN(x.Seq) + ", " + hx.CoqN(x.Val) + ")"
}

func main() { hx.Main(eng{}) }
