package main

// Mode c14: the restart of a history goes through a savepoint.
//
// The job side is the REAL snapshots.Store over a local directory: CreateSavepoint (alone, or folded into a pending
// periodic checkpoint), acknowledgements in a chosen order, the asynchronous publication which writes the job
// checkpoint file and then the savepoint artifact. The store's file store is wrapped by a gate that can hold the
// publication right after the acknowledgements completed, so that the harness can deterministically let the NEXT
// periodic checkpoint's DKV save (and a retained-checkpoints update) land before the artifact is copied - the order
// the real job produces when the copy is slow. Then: all operators stop, the working storage (every operator
// directory and the job's checkpoint directory) is deleted, a new Store is created with the savepoint URI,
// LoadCheckpoint copies the files back, and the history continues on new operators (same or different count).

import (
	"context"
	"encoding/json"
	"fmt"
	"io"
	"iter"
	"os"
	"path/filepath"
	"sort"
	"strings"
	"sync"
	"time"

	"reduction.dev/reduction/connectors"
	"reduction.dev/reduction/jobs"
	"reduction.dev/reduction/proto/jobpb"
	"reduction.dev/reduction/proto/snapshotpb"
	"reduction.dev/reduction/storage/locations"
	"reduction.dev/reduction/storage/snapshots"
	"verifharness/hx"
)

type nilSplitter struct {
	connectors.UnimplementedSourceSplitter
}

func (*nilSplitter) Checkpoint() []byte { return nil }

// gatedLocation holds Write calls of job snapshot files while armed
type gatedLocation struct {
	inner   locations.StorageLocation
	mu      sync.Mutex
	armed   bool
	arrived chan struct{}
	release chan struct{}
	faultAt int    // the faultAt-th copy of a DKV file into a savepoint artifact fails with ErrNotFound (0 = none)
	copies  int
	faulted string // the file whose copy failed
}

func (g *gatedLocation) arm() {
	g.mu.Lock()
	g.armed, g.arrived, g.release = true, make(chan struct{}), make(chan struct{})
	g.mu.Unlock()
}
func (g *gatedLocation) Write(p string, data io.Reader) (string, error) {
	g.mu.Lock()
	armed, arrived, release := g.armed, g.arrived, g.release
	if armed && strings.HasSuffix(p, ".snapshot") {
		g.armed = false
		g.mu.Unlock()
		close(arrived)
		<-release
	} else {
		g.mu.Unlock()
	}
	return g.inner.Write(p, data)
}
func (g *gatedLocation) Read(p string) ([]byte, error)       { return g.inner.Read(p) }
func (g *gatedLocation) List() iter.Seq2[string, error]      { return g.inner.List() }
func (g *gatedLocation) URI(p string) (string, error)        { return g.inner.URI(p) }
func (g *gatedLocation) Copy(src string, dst string) error {
	if strings.Contains(dst, "savepoints") && strings.Contains(dst, "/dkv/") {
		g.mu.Lock()
		g.copies++
		hit := g.faultAt > 0 && g.copies == g.faultAt
		if hit {
			g.faulted = src
		}
		g.mu.Unlock()
		if hit {
			return locations.ErrNotFound // the file vanished between the DKV checkpoint and the copy
		}
	}
	return g.inner.Copy(src, dst)
}
func (g *gatedLocation) fault() string { g.mu.Lock(); defer g.mu.Unlock(); return g.faulted }
func (g *gatedLocation) Remove(paths ...string) error        { return g.inner.Remove(paths...) }

type jobSide struct {
	loc     *gatedLocation
	store   *snapshots.Store
	events  chan string
	errs    chan error
	retain  chan []uint64
	counter uint64 // last checkpoint id the store handed out / loaded
}

func (cl *cluster) jobDir() string { return filepath.Join(cl.dir, "jobstore") }

func (cl *cluster) newJobSide(savepointURI string, counter uint64) (*jobSide, error) {
	js := &jobSide{
		loc:    &gatedLocation{inner: locations.NewLocalDirectory(cl.jobDir())},
		events: make(chan string, 8), errs: make(chan error, 8), retain: make(chan []uint64, 8), counter: counter,
	}
	js.store = snapshots.NewStore(&snapshots.NewStoreParams{
		SavepointURI: savepointURI, FileStore: js.loc, SavepointsPath: "savepoints", CheckpointsPath: "checkpoints",
		CheckpointEvents: js.events, ErrChan: js.errs, RetainedCheckpointsUpdated: js.retain,
	})
	js.store.RegisterSourceSplitter(&nilSplitter{})
	if err := js.store.LoadCheckpoint(); err != nil {
		return nil, err
	}
	return js, nil
}

func coqNames(names []string) string {
	sort.Strings(names)
	items := make([]string, len(names))
	for i, n := range names {
		items[i] = hx.CoqBytes([]byte(n))
	}
	return hx.CoqList(items, "bytes")
}

func listNames(dir string) []string {
	es, err := os.ReadDir(dir)
	if err != nil {
		return nil
	}
	var out []string
	for _, e := range es {
		if !e.IsDir() {
			out = append(out, e.Name())
		}
	}
	return out
}

// entries of an operator's `checkpoints` file as Gallina list ckentry (file URIs)
func ckEntries(file string) (string, error) {
	data, err := os.ReadFile(file)
	if err != nil {
		return "", err
	}
	var f ckFile
	if err := json.Unmarshal(data, &f); err != nil {
		return "", err
	}
	var items []string
	for _, ck := range f.Checkpoints {
		var ns []string
		for _, w := range ck.WALs {
			ns = append(ns, hx.CoqBytes([]byte(w.URI)))
		}
		for _, lvl := range ck.Levels {
			for _, t := range lvl {
				ns = append(ns, hx.CoqBytes([]byte(t.URI)))
			}
		}
		items = append(items, fmt.Sprintf("(%d, %s)", ck.ID, hx.CoqList(ns, "bytes")))
	}
	return hx.CoqList(items, "ckentry"), nil
}

// original URIs of every file below <savepoint dir>/dkv (the artifact stores a file under its original absolute path)
// Only files written since `since` count: a savepoint location that an earlier life of the job already used may hold
// that life's files under the same names; they are not part of this savepoint.
func artifactURIs(spDir string, since time.Time) []string {
	root := filepath.Join(spDir, "dkv")
	var out []string
	filepath.WalkDir(root, func(p string, d os.DirEntry, err error) error {
		if err == nil && !d.IsDir() {
			if info, e := d.Info(); e == nil && !info.ModTime().Before(since) {
				out = append(out, strings.TrimPrefix(p, root))
			}
		}
		return nil
	})
	return out
}

func sresCoq(id uint64, created bool, err error) string {
	if err != nil {
		return "RErr"
	}
	return fmt.Sprintf("(RId %d %s)", id, hx.CoqBool(created))
}

func (cl *cluster) barrierAll(id uint64) ([]*snapshotpb.OperatorCheckpoint, error) {
	cl.job.take()
	for i := range cl.ops {
		if err := cl.sendBarrier(i, id); err != nil {
			return nil, fmt.Errorf("barrier %d to operator %d: %v", id, i, err)
		}
	}
	acks := cl.job.take()
	if len(acks) != len(cl.ops) {
		return nil, fmt.Errorf("%d acknowledgements for %d operators", len(acks), len(cl.ops))
	}
	return acks, nil
}

// No wait in this file has a deadline: a publication that never happens is a hang of the implementation, which the
// supervisor of hx reports against this case after its own (generous) bound; a deadline here could only turn a slow
// but correct run into a failure.

func (cl *cluster) savepointRestart(o op, tags map[string]bool, tableIDs map[string]int, nkeys int, terms *[]string) (string, any, bool, error) {
	if cl.js == nil {
		js, err := cl.newJobSide("", 0)
		if err != nil {
			return "", nil, false, err
		}
		cl.js = js
	}
	js := cl.js
	if err := cl.waitTasks(); err != nil {
		return "", nil, false, err
	}
	opIDs := make([]string, len(cl.ops))
	for i, a := range cl.ops {
		opIDs[i] = a.id
	}
	// --- request the savepoint through the REAL Job.HandleCreateSavepoint, alone or while a periodic checkpoint is
	// pending (the harness plays the ticker: Store.CreateCheckpoint + Assembly.StartCheckpoint, as jobs/job.go does)
	ctx := context.Background()
	requested := time.Now().Add(-2 * time.Millisecond)
	job := jobs.VerifNewRunningJob(js.store, cl.asm, js.errs)
	cl.sr.take()
	counterAtStart := js.counter
	counterBefore := js.counter
	var pendingID uint64
	if o.Fold {
		id, err := js.store.CreateCheckpoint(opIDs, []string{"sr0"})
		if err != nil {
			return "", nil, false, fmt.Errorf("CreateCheckpoint: %v", err)
		}
		if err := cl.asm.StartCheckpoint(ctx, id); err != nil {
			return "", nil, false, fmt.Errorf("StartCheckpoint: %v", err)
		}
		pendingID, counterBefore = id, id
		tags["savepoint-folded"] = true
	}
	id, serr := job.HandleCreateSavepoint(ctx)
	if serr != nil {
		return "", nil, false, fmt.Errorf("HandleCreateSavepoint: %v", serr)
	}
	created := !(o.Fold && id == pendingID) // observable: the request answered with the id of the checkpoint in progress
	js.counter = id
	starts := cl.sr.take()
	ss := make([]string, len(starts))
	for i, x := range starts {
		ss[i] = fmt.Sprint(x)
	}
	*terms = append(*terms, fmt.Sprintf("SSave (SpStarts %s %d %s)", hx.CoqBool(o.Fold), counterAtStart, hx.CoqList(ss, "N")))
	over := o.Late && o.Over
	if o.Late {
		js.loc.arm()
		tags["later-dkv-checkpoint-before-copy"] = true
	}
	js.loc.mu.Lock()
	js.loc.faultAt, js.loc.copies, js.loc.faulted = o.Fault, 0, ""
	js.loc.mu.Unlock()
	acks, err := cl.barrierAll(id)
	if err != nil {
		return "", nil, false, err
	}
	perm := normPerm(o.Perm, len(acks))
	if err := job.HandleSourceRunnerCheckpointComplete(ctx, &jobpb.SourceRunnerCheckpointCompleteRequest{CheckpointId: id, SourceRunnerId: "sr0"}); err != nil {
		return "", nil, false, fmt.Errorf("HandleSourceRunnerCheckpointComplete: %v", err)
	}
	for _, p := range perm {
		if err := job.HandleOperatorCheckpointComplete(ctx, acks[p]); err != nil {
			return "", nil, false, fmt.Errorf("HandleOperatorCheckpointComplete: %v", err)
		}
	}
	// the store's counter is observed through the id of the next checkpoint it hands out
	nextID, nerr := js.store.CreateCheckpoint(opIDs, []string{"sr0"})
	if nerr != nil {
		return "", nil, false, fmt.Errorf("CreateCheckpoint after the savepoint completed: %v", nerr)
	}
	*terms = append(*terms, fmt.Sprintf("SSave (SpFold %s %d %d %s %d %d)", hx.CoqBool(o.Fold), pendingID, counterBefore, sresCoq(id, created, nil), nextID-1, id))
	if o.Late {
		<-js.loc.arrived
		if o.Retain {
			for _, a := range cl.ops {
				// the job ignores the result of this call as well (jobs/job.go); a failure is only tagged
				if err := a.UpdateRetainedCheckpoints(nil, []uint64{id}); err != nil {
					tags["retain-update-error"] = true
				}
			}
			tags["retain-before-copy"] = true
		}
		// a little more state, then the next periodic checkpoint's DKV save lands before the copy
		nextAcks, err := cl.barrierAll(nextID)
		if err != nil {
			return "", nil, false, err
		}
		if over {
			// ... and the next checkpoint even COMPLETES and is published while the job-file write of the savepoint's
			// checkpoint is still held: the savepoint's publication is overtaken (superseded)
			if err := job.HandleSourceRunnerCheckpointComplete(ctx, &jobpb.SourceRunnerCheckpointCompleteRequest{CheckpointId: nextID, SourceRunnerId: "sr0"}); err != nil {
				return "", nil, false, fmt.Errorf("HandleSourceRunnerCheckpointComplete(next): %v", err)
			}
			for _, a := range nextAcks {
				if err := job.HandleOperatorCheckpointComplete(ctx, a); err != nil {
					return "", nil, false, fmt.Errorf("HandleOperatorCheckpointComplete(next): %v", err)
				}
			}
			select {
			case <-js.events:
			case e := <-js.errs:
				return "", nil, false, fmt.Errorf("the next checkpoint %d failed to publish: %v", nextID, e)
			}
			tags["savepoint-overtaken"] = true
		}
		close(js.loc.release)
	}
	// outcome, after every gated write has been released: the savepoint id resolves to a URI, or an error was reported
	published := true
	var failure string
	select {
	case <-js.events:
	case e := <-js.errs:
		published, failure = false, e.Error()
	}
	var spURI string
	if published {
		u, err := js.store.SavepointURIForID(id)
		if err != nil {
			published, failure = false, "SavepointURIForID: "+err.Error()
		}
		spURI = u
	}
	fired := js.loc.fault() != ""
	if fired {
		tags["copy-fault-injected"] = true
	}
	*terms = append(*terms, fmt.Sprintf("SSave (SpOutcome %s %s)", hx.CoqBool(fired), hx.CoqBool(published)))
	if !published {
		tags["SAVEPOINT-NOT-PUBLISHED"] = true
		return "", map[string]any{"savepoint_not_published": failure, "copy_fault": js.loc.fault()}, false, errStop
	}
	spDir := filepath.Dir(spURI)
	// --- observations on the artifact
	var obsItems []string
	for _, a := range acks {
		ents, err := ckEntries(a.DkvFileUri)
		if err != nil {
			return "", nil, false, err
		}
		obsItems = append(obsItems, fmt.Sprintf("(%d, %s, %s)", id, hx.CoqBytes([]byte(a.DkvFileUri)), ents))
	}
	artifact := artifactURIs(spDir, requested)
	withFiles := len(artifact) > len(acks)
	// --- stop everything, wipe the working storage, start a new job from the savepoint URI
	cl.stopAll()
	cl.quiesce()
	os.RemoveAll(cl.workDir())
	os.RemoveAll(filepath.Join(cl.jobDir(), "checkpoints"))
	restored := true
	var loadErr string
	js2, err := cl.newJobSide(spURI, 0)
	if err != nil {
		restored, loadErr = false, err.Error()
	}
	var after []string
	for _, u := range artifact {
		if _, err := os.Stat(u); err == nil {
			after = append(after, u)
		}
	}
	var ckpt *snapshotpb.JobCheckpoint
	if restored {
		ckpt = js2.store.CurrentCheckpoint()
		if ckpt == nil || ckpt.Id != id {
			restored, loadErr = false, "the store did not load the savepoint's checkpoint"
		}
	}
	var term string
	var j any
	nt := false
	if restored {
		js2.counter = ckpt.Id
		cl.js = js2
		cl.ckptID = ckpt.Id
		term, j, nt, err = cl.restartFrom(ckpt, o.N, tags, tableIDs, nkeys, false, "SRescale")
		if err != nil {
			restored, loadErr = false, err.Error()
		}
	}
	*terms = append(*terms, fmt.Sprintf("SSave (SpFiles %s %s %s %s)", hx.CoqList(obsItems, "op_obs"), coqNames(artifact), coqNames(after), hx.CoqBool(restored)))
	if !restored {
		tags["RESTORE-FAILED"] = true
		return "", map[string]any{"restore_error": loadErr}, false, errStop
	}
	return term, j, nt || withFiles, nil
}
