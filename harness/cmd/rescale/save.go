package main

import "fmt"

func (cl *cluster) savepointRestart(o op, tags map[string]bool, tableIDs map[string]int, nkeys int, terms *[]string) (string, any, bool, error) {
	return "", nil, false, fmt.Errorf("savepoint restarts not implemented yet")
}
