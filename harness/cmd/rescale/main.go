// engine rescale (properties C06 and C14).
//
// A reduced cluster under the harness's control: REAL operator.Operator values (their own DKV on a local
// directory, tiny DKV sizes through verifhook tuning), deployed by the REAL jobs.Assembly.Deploy (which computes the
// checkpoint assignment with partitioning.AssignRanges and sliceu.Pick), a fake job that records
// OperatorCheckpointComplete, and a reference handler that records the KeyState it is handed with every event and the
// TimerExpired events it receives. The harness plays the single source runner "sr0": it routes every keyed event with the
// real partitioning.KeySpace, sends watermarks and checkpoint barriers, decides the order in which the
// acknowledgements are recorded in the job checkpoint (any permutation), and restarts the job with another
// operator count. Everything is synchronous: HandleEvent returns after the handler has run (batch size 1), so there is
// no scheduling freedom in the observables; background DKV tasks are awaited before every checkpoint.
//
// mode c06: CAssign (AssignRanges called directly), CDeploy (Assembly.Deploy with recording operators only),
//
//	CRescale (histories of events / watermarks / rescales on the real operators).
//
// mode c14: CRescale histories whose restarts go through a savepoint (real snapshots.Store, artifact, wipe of the working
//
//	storage, LoadCheckpoint from the savepoint URI), plus CSave observations (file sets, folding).
package main

import (
	"context"
	"encoding/binary"
	"encoding/json"
	"fmt"
	"io"
	"log/slog"
	"os"
	"path/filepath"
	"runtime"
	"runtime/debug"
	"sort"
	"strings"
	"sync"
	"syscall"
	"time"

	"connectrpc.com/connect"
	"google.golang.org/protobuf/types/known/timestamppb"
	"reduction.dev/reduction-protocol/handlerpb"
	"reduction.dev/reduction/batching"
	"reduction.dev/reduction/config"
	"reduction.dev/reduction/connectors/embedded"
	"reduction.dev/reduction/dkv"
	"reduction.dev/reduction/dkv/sst"
	"reduction.dev/reduction/dkv/storage"
	"reduction.dev/reduction/dkv/wal"
	"reduction.dev/reduction/jobs"
	"reduction.dev/reduction/partitioning"
	"reduction.dev/reduction/proto"
	"reduction.dev/reduction/proto/jobpb"
	"reduction.dev/reduction/proto/snapshotpb"
	"reduction.dev/reduction/proto/workerpb"
	"reduction.dev/reduction/util/verifhook"
	"reduction.dev/reduction/workers/operator"
	"verifharness/hx"
)

type eng struct{}

func (eng) Name() string { return "rescale" }
func (eng) CoqRequire(mode string) string {
	return "From RV Require Import Model.Rescale Model.Savepoint Corr.Check_rescale."
}
func (eng) CoqCaseType(mode string) string { return "Check_rescale.case" }
func (eng) CoqRun(mode string) string      { return "Check_rescale.run" }
func (eng) Rule(mode string) string {
	if mode == "c14" {
		return "histories of keyed events (put/delete/no-op on 2 namespaces x 3 entry keys of up to 10 subject keys, optional timer), watermarks and restarts THROUGH A SAVEPOINT (real snapshots.Store; savepoint requested with no checkpoint pending / folded into a pending checkpoint; a later DKV checkpoint saved before or after the artifact copy; retained-checkpoint update before the copy or not), working storage wiped, restart from the savepoint URI with the same or another operator count; tiny DKV sizes so that state is in WAL / level 0 / deeper levels. Non-trivial: the savepoint's operators hold state in files (tables or WAL entries) and at least one key has state when the savepoint is taken."
	}
	return "CAssign: arbitrary range lists (sorted, shuffled, overlapping, empty ranges); CDeploy: real Assembly.Deploy for key-group counts 1..65535, M,N in 1..40, every recorded order a random permutation (identity, reversed, rotated, random); CRescale: chains M->N->K (1..4 operators, up to 3 rescales) with random acknowledgement permutations, key-group counts 2..256, DKV tuned from 'everything in memory' to 'flush every few entries, compaction into deeper levels, several tables per level', events before, between and after the rescales, final probe of every key and final watermark. Non-trivial: a rescale with M<>N or a non-identity acknowledgement order where at least two old operators hold state; distinct by hash of parameters and ops."
}

// ---------- case format ----------

type op struct {
	Op   string `json:"op"` // ev | wm | ckpt | release | rescale | redeploy | save | fresh
	Key  uint64 `json:"key,omitempty"`
	Ns   uint64 `json:"ns,omitempty"`
	Ek   uint64 `json:"ek,omitempty"`
	Act  uint64 `json:"act,omitempty"` // 0 none 1 put 2 delete
	Val  uint64 `json:"val,omitempty"`
	Tm   uint64 `json:"tm,omitempty"`
	T    uint64 `json:"t,omitempty"`
	N    int    `json:"n,omitempty"`
	Perm []int  `json:"perm,omitempty"`
	// save only
	Fold   bool `json:"fold,omitempty"`   // a periodic checkpoint is pending when the savepoint is requested
	Late   bool `json:"late,omitempty"`   // the next DKV checkpoint is saved before the artifact is copied
	Retain bool `json:"retain,omitempty"` // operators are told to retain only the savepoint's checkpoint before it is taken
	Reuse  bool `json:"reuse,omitempty"`  // rescale / redeploy: new operator i keeps the id and directory of old operator i
	Over   bool `json:"over,omitempty"`   // (with late) the next checkpoint completes and is published before the savepoint's job file is written
	Fault  int  `json:"fault,omitempty"`  // the Fault-th copy of a DKV file into the artifact fails with ErrNotFound
}

func pInt(c *hx.Case, name string, def int) int {
	if v, ok := c.Params[name]; ok {
		switch x := v.(type) {
		case float64:
			return int(x)
		case int:
			return x
		}
	}
	return def
}
func pStr(c *hx.Case, name string) string {
	if v, ok := c.Params[name]; ok {
		if s, ok := v.(string); ok {
			return s
		}
	}
	return ""
}

// ---------- naming of keys / values ----------

func keyBytes(k uint64) []byte { return []byte(fmt.Sprintf("k%d", k)) }
func keyNum(b []byte) uint64 {
	var k uint64
	fmt.Sscanf(string(b), "k%d", &k)
	return k
}
func nsName(n uint64) string   { return fmt.Sprintf("n%d", n) }
func ekBytes(e uint64) []byte  { return []byte(fmt.Sprintf("e%d", e)) }
func valBytes(v uint64) []byte { return []byte(fmt.Sprintf("v%d", v)) }
func numOf(prefix byte, b []byte) uint64 {
	if len(b) < 2 || b[0] != prefix {
		return 999999
	}
	var n uint64
	for _, c := range b[1:] {
		if c < '0' || c > '9' {
			return 999999
		}
		n = n*10 + uint64(c-'0')
	}
	return n
}
func valNum(b []byte) uint64 {
	if len(b) == 0 {
		return 0
	}
	return numOf('v', b)
}

// ---------- reference handler ----------

type refHandler struct {
	mu    sync.Mutex
	obs   [][3]uint64 // KeyState of the last keyed event
	seen  bool
	fired [][2]uint64 // (key, ts)
}

func (h *refHandler) KeyEventBatch(ctx context.Context, events [][]byte) ([][]*handlerpb.KeyedEvent, error) {
	panic("unused by operators")
}

func (h *refHandler) ProcessEventBatch(ctx context.Context, req *handlerpb.ProcessEventBatchRequest) (*handlerpb.ProcessEventBatchResponse, error) {
	h.mu.Lock()
	defer h.mu.Unlock()
	resp := &handlerpb.ProcessEventBatchResponse{}
	states := map[string]*handlerpb.KeyState{}
	for _, ks := range req.KeyStates {
		states[string(ks.Key)] = ks
	}
	for _, e := range req.Events {
		switch ev := e.Event.(type) {
		case *handlerpb.Event_KeyedEvent:
			v := ev.KeyedEvent.Value
			ns, ek, act, val, tm := binary.BigEndian.Uint64(v[0:8]), binary.BigEndian.Uint64(v[8:16]), binary.BigEndian.Uint64(v[16:24]), binary.BigEndian.Uint64(v[24:32]), binary.BigEndian.Uint64(v[32:40])
			h.obs = nil
			h.seen = true
			if ks := states[string(ev.KeyedEvent.Key)]; ks != nil {
				for _, sn := range ks.StateEntryNamespaces {
					for _, en := range sn.Entries {
						h.obs = append(h.obs, [3]uint64{numOf('n', []byte(sn.Namespace)), numOf('e', en.Key), valNum(en.Value)})
					}
				}
			}
			kr := &handlerpb.KeyResult{Key: ev.KeyedEvent.Key}
			if tm != 0 {
				kr.NewTimers = []*timestamppb.Timestamp{{Seconds: int64(tm)}}
			}
			switch act {
			case 1:
				kr.StateMutationNamespaces = []*handlerpb.StateMutationNamespace{{Namespace: nsName(ns), Mutations: []*handlerpb.StateMutation{{
					Mutation: &handlerpb.StateMutation_Put{Put: &handlerpb.PutMutation{Key: ekBytes(ek), Value: valBytes(val)}}}}}}
			case 2:
				kr.StateMutationNamespaces = []*handlerpb.StateMutationNamespace{{Namespace: nsName(ns), Mutations: []*handlerpb.StateMutation{{
					Mutation: &handlerpb.StateMutation_Delete{Delete: &handlerpb.DeleteMutation{Key: ekBytes(ek)}}}}}}
			}
			resp.KeyResults = append(resp.KeyResults, kr)
		case *handlerpb.Event_TimerExpired:
			h.fired = append(h.fired, [2]uint64{keyNum(ev.TimerExpired.Key), uint64(ev.TimerExpired.Timestamp.AsTime().Unix())})
		}
	}
	return resp, nil
}

func (h *refHandler) takeObs() ([][3]uint64, bool) {
	h.mu.Lock()
	defer h.mu.Unlock()
	o, s := h.obs, h.seen
	h.obs, h.seen = nil, false
	sort.Slice(o, func(i, j int) bool {
		if o[i][0] != o[j][0] {
			return o[i][0] < o[j][0]
		}
		return o[i][1] < o[j][1]
	})
	return o, s
}
func (h *refHandler) takeFired() [][2]uint64 {
	h.mu.Lock()
	defer h.mu.Unlock()
	f := h.fired
	h.fired = nil
	return f
}

// ---------- fake job ----------

type fakeJob struct {
	proto.UnimplementedJob
	mu   sync.Mutex
	acks []*snapshotpb.OperatorCheckpoint
	sink func(*snapshotpb.OperatorCheckpoint) error // when set (c14), acknowledgements go to the real snapshot store
}

func (j *fakeJob) RegisterOperator(context.Context, *jobpb.NodeIdentity) error   { return nil }
func (j *fakeJob) DeregisterOperator(context.Context, *jobpb.NodeIdentity) error { return nil }
func (j *fakeJob) OperatorCheckpointComplete(ctx context.Context, req *snapshotpb.OperatorCheckpoint) error {
	j.mu.Lock()
	j.acks = append(j.acks, req)
	j.mu.Unlock()
	return nil
}
func (j *fakeJob) take() []*snapshotpb.OperatorCheckpoint {
	j.mu.Lock()
	defer j.mu.Unlock()
	a := j.acks
	j.acks = nil
	return a
}

// ---------- in-process proto.Operator over a real Operator ----------

type opAdapter struct {
	proto.UnimplementedOperator
	id      string
	real    *operator.Operator
	gotCkpt []*snapshotpb.OperatorCheckpoint
	deploys int
}

func (a *opAdapter) ID() string   { return a.id }
func (a *opAdapter) Host() string { return "h" }
func (a *opAdapter) Deploy(ctx context.Context, req *workerpb.DeployOperatorRequest) (err error) {
	a.gotCkpt = req.Checkpoints
	a.deploys++
	if a.real == nil {
		return nil
	}
	// Deploy runs on an errgroup goroutine: a panic of dkv.Open must become an observed failure, not a crash
	defer func() {
		if p := recover(); p != nil {
			err = fmt.Errorf("HandleDeploy panicked: %v", p)
		}
	}()
	return a.real.HandleDeploy(ctx, req, &embedded.RecordingSink{})
}
func (a *opAdapter) NeedsTable(ctx context.Context, fileURI string) (needs bool, err error) {
	// asked by table clean-ups on the garbage collector's goroutine; an operator that has not opened its database
	// yet (or is from an earlier generation) answers like an unreachable node: "keep the file"
	if a.real == nil || a.real.VerifDKV() == nil {
		return true, nil
	}
	defer func() {
		if p := recover(); p != nil {
			needs, err = true, fmt.Errorf("NeedsTable panicked: %v", p)
		}
	}()
	return a.real.HandleNeedsTable(fileURI), nil
}
func (a *opAdapter) UpdateRetainedCheckpoints(ctx context.Context, ids []uint64) error {
	if a.real == nil {
		return nil
	}
	return a.real.HandleRemoveCheckpoints(ctx, &workerpb.UpdateRetainedCheckpointsRequest{CheckpointIds: ids})
}

// ---------- the reduced cluster ----------

type cluster struct {
	dir      string
	kgc      int
	gen      int
	ckptID   uint64
	ks       *partitioning.KeySpace
	ops      []*opAdapter
	cancels  []context.CancelFunc
	job      *fakeJob
	handler  *refHandler
	keep     []any // operators of earlier generations stay referenced until the case ends (no in-process table clean-up)
	adapters map[string]*opAdapter
	amu      sync.Mutex
	js       *jobSide // c14: the real snapshot store of the running job
	shared   []tableRef // tables of the checkpoints the running operators were restored from
	lastCkpt *snapshotpb.JobCheckpoint // the job checkpoint deployed last (a redeployment uses it again)
	retained bool                      // a retention update reached an operator since then (the old checkpoint's files may be gone)
	reuse    bool                      // the next deployment reuses the ids (and directories) of the current operators
	reused   int
	refused  int
	gcOff     bool
	gcPercent int
	sr       *recSR   // c14: the source runner the job talks to (records StartCheckpoint)
	asm      *jobs.Assembly
}

type tableRef struct {
	uri        string
	start, end []byte
}

// scriptedNeighbor answers NeedsTable for a real operator in a generated way: 0 = the operator's real answer,
// 1 = an RPC error, 2 = the call is cancelled on the neighbour's side (an error wrapping context.Canceled),
// 3 = slow: the real answer, but only after the harness has seen every other neighbour answer
type scriptedNeighbor struct {
	proto.UnimplementedOperator
	real  *opAdapter
	mode  int
	asked chan struct{}
	gate  chan struct{}
}

func (n *scriptedNeighbor) ID() string   { return n.real.id }
func (n *scriptedNeighbor) Host() string { return "h" }
func (n *scriptedNeighbor) NeedsTable(ctx context.Context, uri string) (bool, error) {
	switch n.mode {
	case 1:
		return false, connect.NewError(connect.CodeUnavailable, fmt.Errorf("needs table %s: operator unavailable", uri))
	case 2:
		return false, connect.NewError(connect.CodeCanceled, fmt.Errorf("needs table %s: %w", uri, context.Canceled))
	case 3:
		select {
		case n.asked <- struct{}{}:
		default:
		}
		select {
		case <-n.gate:
		case <-ctx.Done():
			return false, ctx.Err()
		}
	}
	return n.real.NeedsTable(ctx, uri)
}

// release: operator d lets go of every old table that at least one neighbour still lists (what happens when d has
// compacted the table away and dropped the restored checkpoint and its table object is collected). The REAL
// OperatorPartition.ExclusivelyOwnsTable decides over the scripted neighbours; the decision is applied as the table
// clean-up of dkv/sst/table.go applies it: the file is deleted only on (true, nil). Because a neighbour lists the file,
// a correct decision never deletes it, whatever the neighbours' RPCs do.
func (cl *cluster) release(d int, modes []int) (asked, deleted int) {
	if d < 0 || d >= len(cl.ops) || len(cl.ops) < 2 {
		return 0, 0
	}
	for _, t := range cl.shared {
		if _, err := os.Stat(t.uri); err != nil {
			continue
		}
		listed := false
		var ns []operator.VerifNeighbor
		var slow []*scriptedNeighbor
		ranges := cl.ks.KeyGroupRanges()
		for e, a := range cl.ops {
			if e == d {
				continue
			}
			if a.real.HandleNeedsTable(t.uri) {
				listed = true
			}
			m := 0
			if e < len(modes) {
				m = modes[e] % 4
			}
			sn := &scriptedNeighbor{real: a, mode: m, asked: make(chan struct{}, 1), gate: make(chan struct{})}
			if m == 3 {
				slow = append(slow, sn)
			}
			ns = append(ns, operator.VerifNeighbor{KeyGroupRange: ranges[e], Operator: sn})
		}
		if !listed {
			continue
		}
		part := operator.VerifNewOperatorPartition(ranges[d], ns)
		type res struct {
			ok  bool
			err error
		}
		done := make(chan res, 1)
		go func() {
			ok, err := part.ExclusivelyOwnsTable(t.uri, t.start, t.end)
			done <- res{ok, err}
		}()
		// a slow neighbour answers after it has been asked (or the call finished without waiting for it)
		for _, sn := range slow {
			select {
			case <-sn.asked:
			case r := <-done:
				done <- r
			}
			close(sn.gate)
		}
		r := <-done
		asked++
		if r.err == nil && r.ok {
			os.Remove(t.uri)
			deleted++
		}
	}
	return asked, deleted
}

// recSR is the job's view of source runner "sr0": it records the StartCheckpoint rounds the job broadcasts (the barriers
// themselves are injected by the harness)
type recSR struct {
	proto.UnimplementedSourceRunner
	mu      sync.Mutex
	started []uint64
}

func (s *recSR) ID() string   { return "sr0" }
func (s *recSR) Host() string { return "h" }
func (s *recSR) Deploy(context.Context, *workerpb.DeploySourceRunnerRequest) error { return nil }
func (s *recSR) AssignSplits(context.Context, []*workerpb.SourceSplit) error       { return nil }
func (s *recSR) StartCheckpoint(ctx context.Context, id uint64) error {
	s.mu.Lock()
	s.started = append(s.started, id)
	s.mu.Unlock()
	return nil
}
func (s *recSR) take() []uint64 {
	s.mu.Lock()
	defer s.mu.Unlock()
	a := s.started
	s.started = nil
	return a
}

// errStop ends a history early (a savepoint could not be written or restored: that outcome is in the observations)
var errStop = fmt.Errorf("history ends here")

func (c *cluster) sendBarrier(i int, id uint64) error {
	return c.send(i, &workerpb.Event{Event: &workerpb.Event_CheckpointBarrier{CheckpointBarrier: &workerpb.CheckpointBarrier{CheckpointId: id}}})
}

func (c *cluster) workDir() string { return filepath.Join(c.dir, "work") }

// deploy n new real operators from the given job checkpoint (nil = fresh) through the real Assembly.Deploy
func (c *cluster) deploy(n int, ckpt *snapshotpb.JobCheckpoint) error {
	c.gen++
	c.ks = partitioning.NewKeySpace(c.kgc, n)
	var prevIDs []string
	if c.reuse {
		// Known finding D11 (C09/C15): a table object of an EARLIER incarnation that is collected later deletes "its" file
		// by name - by then a file of the new database in the reused directory. That timing-dependent hazard is not what
		// this check judges: all pending clean-ups run now, and no collection happens for the rest of the case.
		c.noMoreCollections()
		// surviving workers keep their operator id, hence their DKV directory and `checkpoints` file
		for _, a := range c.ops {
			prevIDs = append(prevIDs, a.id)
		}
	}
	c.reuse = false
	c.ops = make([]*opAdapter, n)
	protoOps := make([]proto.Operator, n)
	for i := 0; i < n; i++ {
		id := fmt.Sprintf("g%d-op%d", c.gen, i)
		if i < len(prevIDs) && c.reuseSafe(prevIDs[i], i, ckpt) {
			id = prevIDs[i]
			c.reused++
		} else if i < len(prevIDs) {
			c.refused++
		}
		real := operator.NewOperator(operator.NewOperatorParams{
			ID: id, Host: "h", Job: c.job, UserHandler: c.handler,
			EventBatching: batching.EventBatcherParams{MaxSize: 1},
			NeighborOperatorFactory: func(senderID string, node *jobpb.NodeIdentity) proto.Operator {
				c.amu.Lock()
				defer c.amu.Unlock()
				if a := c.adapters[node.Id]; a != nil {
					return a
				}
				return &opAdapter{id: node.Id}
			},
		})
		a := &opAdapter{id: id, real: real}
		c.amu.Lock()
		c.adapters[id] = a
		c.amu.Unlock()
		c.ops[i] = a
		protoOps[i] = a
		c.keep = append(c.keep, real)
		ctx, cancel := context.WithCancel(context.Background())
		c.cancels = append(c.cancels, cancel)
		go real.Start(ctx)
	}
	// Start() creates the event batcher asynchronously; HandleDeploy and HandleEvent need it
	var srs []proto.SourceRunner
	if c.sr != nil {
		srs = []proto.SourceRunner{c.sr}
	}
	asm := jobs.NewAssembly(protoOps, srs)
	c.asm = asm
	cfg := &config.Config{WorkerCount: n, KeyGroupCount: c.kgc, WorkingStorageLocation: c.workDir()}
	if err := asm.Deploy(cfg, ckpt); err != nil {
		return err
	}
	return c.waitTasks() // the WAL replay may have rotated memtables
}

// quiesce waits for the background DKV tasks of every operator ever deployed in this case (a flush or compaction
// still running when the case directory is removed would panic on its own goroutine)
func (c *cluster) quiesce() {
	for _, k := range c.keep {
		if o, ok := k.(*operator.Operator); ok {
			waitDB(o.VerifDKV())
		}
	}
}

// noMoreCollections: from the first reuse of a directory NAME within a case (a surviving operator's directory, a fresh
// life of the job with the same operator names) until the end of the case the garbage collector stays off, after every
// clean-up that is already due has run. Deterministic, no sleeps: with the collector off nothing new becomes due; a
// sentinel object's clean-up, queued by an explicit collection, has run only after the finalizer goroutine (one
// goroutine, it drains what it grabbed before grabbing again) took a batch queued AFTER the previous round, i.e. after it
// finished everything queued by the previous round.
func (c *cluster) noMoreCollections() {
	if !c.gcOff {
		c.gcOff = true
		c.gcPercent = debug.SetGCPercent(-1)
	}
	for round := 0; round < 3; round++ {
		done := make(chan struct{})
		func() {
			sentinel := new([64]byte)
			runtime.AddCleanup(sentinel, func(ch chan struct{}) { close(ch) }, done)
		}()
		runtime.GC()
		<-done
	}
}

// reuseSafe: may new operator i of the deployment of ckpt keep the id (= DKV directory) of a current operator?
// Only if that directory holds no operator checkpoint of ckpt, or the checkpoint it holds is handed to operator i
// itself. Otherwise the implementation is known to clobber files the job checkpoint still needs (the new database
// numbers its tables and WALs from what IT loaded and rewrites the directory's `checkpoints` file; see docs/C06.md,
// observation "reused directory with a moved range") - that class is not generated.
func (c *cluster) reuseSafe(id string, i int, ckpt *snapshotpb.JobCheckpoint) bool {
	if ckpt == nil {
		return true
	}
	recorded := ckpt.OperatorCheckpoints
	from := make([]partitioning.KeyGroupRange, len(recorded))
	for k, r := range recorded {
		from[k] = partitioning.KeyGroupRangeFromProto(r.KeyGroupRange)
	}
	asg := partitioning.AssignRanges(c.ks.KeyGroupRanges(), from)
	for k, r := range recorded {
		if r.OperatorId != id {
			continue
		}
		handed := false
		for _, x := range asg[i] {
			if x == k {
				handed = true
			}
		}
		if !handed {
			return false
		}
	}
	return true
}

func (c *cluster) stopAll() {
	for _, cancel := range c.cancels {
		cancel()
	}
	c.cancels = nil
}

func waitDB(db *dkv.DB) (err error) {
	if db == nil {
		return nil
	}
	// the flush / compaction queues are process-wide: a task of one database may run on a goroutine of another
	// one, so a Wait can meet an Add; that misuse panic of the WaitGroup is a harness artefact, retried by the caller
	defer func() {
		if p := recover(); p != nil {
			err = nil
		}
	}()
	return db.WaitOnTasks()
}

func (c *cluster) waitTasks() error {
	for pass := 0; pass < 3; pass++ {
		for _, a := range c.ops {
			if err := waitDB(a.real.VerifDKV()); err != nil {
				return err
			}
		}
	}
	return nil
}

// send delivers one event and then lets the background tasks of THAT operator's database finish, so that at any
// moment at most one database has flush / compaction work (no scheduling freedom, reproducible table layouts)
func (c *cluster) send(i int, ev *workerpb.Event) error {
	if err := c.ops[i].real.HandleEvent(context.Background(), "sr0", ev); err != nil {
		return err
	}
	return waitDB(c.ops[i].real.VerifDKV())
}

// checkpoint all operators; returns the acknowledgements in operator order
func (c *cluster) checkpoint() ([]*snapshotpb.OperatorCheckpoint, error) {
	if err := c.waitTasks(); err != nil {
		return nil, err
	}
	c.ckptID++
	c.job.take()
	for i := range c.ops {
		if err := c.sendBarrier(i, c.ckptID); err != nil {
			return nil, fmt.Errorf("barrier to operator %d: %v", i, err)
		}
	}
	acks := c.job.take()
	if len(acks) != len(c.ops) {
		return nil, fmt.Errorf("%d acknowledgements for %d operators", len(acks), len(c.ops))
	}
	return acks, nil
}

// ---------- reading the layout of a recorded checkpoint with the real readers ----------

type noDelete struct{}

func (noDelete) OwnsKey([]byte) bool { return true }
func (noDelete) ExclusivelyOwnsTable(string, []byte, []byte) (bool, error) {
	return false, nil
}

type ckFile struct {
	Checkpoints []struct {
		ID   uint64 `json:"id"`
		WALs []struct {
			URI   string `json:"uri"`
			After uint64 `json:"after"`
		} `json:"wals"`
		Levels [][]sst.TableDocument `json:"levels"`
	} `json:"checkpoints"`
}

type layoutStats struct{ tables, deepTables, walEntries, entries int }

func coqEntry(k []byte, seq uint64, del bool, v []byte) string {
	return fmt.Sprintf("mkE %s %d %s %d", hx.CoqBytes(k), seq, hx.CoqBool(del), valNum(v))
}

// layoutOf returns the Gallina ckdoc of checkpoint id of the given `checkpoints` file
func layoutOf(uri string, id uint64, tableIDs map[string]int, st *layoutStats, refs *[]tableRef) (term string, err error) {
	defer func() {
		if p := recover(); p != nil {
			err = fmt.Errorf("layout: %v", p)
		}
	}()
	data, err := os.ReadFile(uri)
	if err != nil {
		return "", err
	}
	var f ckFile
	if err := json.Unmarshal(data, &f); err != nil {
		return "", err
	}
	fs := storage.NewLocalFilesystem(filepath.Dir(uri))
	for _, ck := range f.Checkpoints {
		if ck.ID != id {
			continue
		}
		var levels []string
		for li, lvl := range ck.Levels {
			var ts []string
			for _, td := range lvl {
				if _, ok := tableIDs[td.URI]; !ok {
					tableIDs[td.URI] = len(tableIDs) + 1
				}
				if refs != nil {
					*refs = append(*refs, tableRef{td.URI, []byte(td.StartKey), []byte(td.EndKey)})
				}
				t := sst.NewTableFromDocument(fs, noDelete{}, td)
				var es []string
				var scanErr error
				for e := range t.ScanPrefix(nil, &scanErr) {
					es = append(es, coqEntry(e.Key(), e.SeqNum(), e.IsDelete(), e.Value()))
					st.entries++
				}
				if scanErr != nil {
					return "", scanErr
				}
				st.tables++
				if li > 0 {
					st.deepTables++
				}
				ts = append(ts, fmt.Sprintf("mkT %d %s %s %d %s", tableIDs[td.URI], hx.CoqBytes([]byte(td.StartKey)), hx.CoqBytes([]byte(td.EndKey)), td.EndSeqNum, hx.CoqList(es, "entry")))
			}
			levels = append(levels, hx.CoqList(ts, "table"))
		}
		var wals []string
		for _, w := range ck.WALs {
			var es []string
			for e, err := range wal.NewReader(fs, wal.NewHandle(fs, wal.HandleDocument{URI: w.URI, After: w.After})).All() {
				if err != nil {
					return "", err
				}
				es = append(es, coqEntry(e.K, e.SeqNum(), e.Deleted, e.V))
				st.walEntries++
			}
			wals = append(wals, hx.CoqList(es, "entry"))
		}
		return fmt.Sprintf("mkD %s %s", hx.CoqList(levels, "list table"), hx.CoqList(wals, "list entry")), nil
	}
	return "", fmt.Errorf("checkpoint %d not in %s", id, uri)
}

func scanCoq(db *dkv.DB, prefix []byte) (string, int, error) {
	var items []string
	var scanErr error
	for e := range db.ScanPrefix(prefix, &scanErr) {
		items = append(items, hx.CoqPair(hx.CoqBytes(e.Key()), fmt.Sprint(valNum(e.Value()))))
	}
	return fmt.Sprintf("Probe %s %s", hx.CoqBytes(prefix), hx.CoqList(items, "bytes * N")), len(items), scanErr
}

func normPerm(p []int, n int) []int {
	seen := make([]bool, n)
	var out []int
	for _, x := range p {
		if x >= 0 && x < n && !seen[x] {
			seen[x] = true
			out = append(out, x)
		}
	}
	for i := 0; i < n; i++ {
		if !seen[i] {
			out = append(out, i)
		}
	}
	return out
}

func rangesCoq(rs []partitioning.KeyGroupRange) string {
	items := make([]string, len(rs))
	for i, r := range rs {
		items[i] = fmt.Sprintf("(%d, %d)", r.Start, r.End)
	}
	return hx.CoqList(items, "N * N")
}
func asgCoq(a [][]int) string {
	items := make([]string, len(a))
	for i, l := range a {
		s := make([]string, len(l))
		for k, x := range l {
			s[k] = fmt.Sprint(x)
		}
		items[i] = hx.CoqList(s, "N")
	}
	return hx.CoqList(items, "list N")
}

// ---------- executing a history ----------

var caseMu sync.Mutex

func tuningOf(c *hx.Case) dkv.VerifDBTuning {
	return dkv.VerifDBTuning{
		MemTableSize:                uint64(pInt(c, "mem", 1<<20)),
		TargetFileSize:              uint64(pInt(c, "tfs", 1<<20)),
		MaxWALSize:                  uint64(pInt(c, "wal", 1<<20)),
		L0TableNumCompactionTrigger: pInt(c, "l0", 2),
		SmallestLevelSize:           int64(pInt(c, "sls", 1<<20)),
		MaxSizeAmplificationPercent: pInt(c, "amp", 50),
	}
}

func execHistory(mode string, c *hx.Case) (*hx.Result, error) {
	kgc := pInt(c, "kgc", 8)
	n0 := pInt(c, "n0", 1)
	nkeys := pInt(c, "nkeys", 8)
	if kgc < 1 || kgc > 65535 || n0 < 1 || n0 > 8 {
		return nil, fmt.Errorf("parameters out of range")
	}
	verifhook.SetTuning("dkv", tuningOf(c))
	defer verifhook.SetTuning("dkv", nil)
	base := "/dev/shm"
	if _, err := os.Stat(base); err != nil {
		base = os.TempDir()
	}
	dir, err := os.MkdirTemp(base, "verif-rescale-")
	if err != nil {
		return nil, err
	}
	if os.Getenv("RESCALE_KEEP") == "" {
		defer os.RemoveAll(dir)
	} else {
		os.WriteFile(os.Getenv("RESCALE_KEEP"), []byte(dir), 0o644)
	}
	cl := &cluster{dir: dir, kgc: kgc, job: &fakeJob{}, handler: &refHandler{}, adapters: map[string]*opAdapter{}}
	if mode == "c14" {
		cl.sr = &recSR{}
	}
	defer func() {
		if cl.gcOff {
			debug.SetGCPercent(cl.gcPercent)
		}
		// release the operators of this history and let the finalizers close their files
		cl.keep, cl.ops, cl.adapters = nil, nil, nil
		// table objects -> clean-up functions (their argument holds the file) -> os.File finalizers: several cycles
		for i := 0; i < 4; i++ {
			runtime.GC()
			time.Sleep(200 * time.Microsecond) // resource release only, nothing observed depends on it
		}
		if os.Getenv("RESCALE_FD_DEBUG") != "" {
			if es, err := os.ReadDir("/proc/self/fd"); err == nil {
				if f, err := os.OpenFile(os.Getenv("RESCALE_FD_DEBUG"), os.O_APPEND|os.O_CREATE|os.O_WRONLY, 0o644); err == nil {
					var l syscall.Rlimit
					syscall.Getrlimit(syscall.RLIMIT_NOFILE, &l)
					fmt.Fprintf(f, "fds=%d goroutines=%d limit=%d\n", len(es), runtime.NumGoroutine(), l.Cur)
					f.Close()
				}
			}
		}
	}()
	defer cl.quiesce()
	defer cl.stopAll()
	if err := cl.deploy(n0, nil); err != nil {
		return nil, err
	}
	tags := map[string]bool{}
	tableIDs := map[string]int{}
	var terms []string
	var jobs_ []any
	nontrivial := false
	stopped := false
	for _, raw := range c.Ops {
		if stopped {
			break
		}
		var o op
		if err := json.Unmarshal(raw, &o); err != nil {
			return nil, err
		}
		switch o.Op {
		case "ev":
			kb := keyBytes(o.Key)
			idx := cl.ks.RangeIndex(kb)
			val := make([]byte, 40)
			binary.BigEndian.PutUint64(val[0:], o.Ns)
			binary.BigEndian.PutUint64(val[8:], o.Ek)
			binary.BigEndian.PutUint64(val[16:], o.Act)
			binary.BigEndian.PutUint64(val[24:], o.Val)
			binary.BigEndian.PutUint64(val[32:], o.Tm)
			if err := cl.send(idx, &workerpb.Event{Event: &workerpb.Event_KeyedEvent{KeyedEvent: &handlerpb.KeyedEvent{Key: kb, Value: val, Timestamp: timestamppb.New(time.Unix(1, 0))}}}); err != nil {
				return nil, fmt.Errorf("event: %v", err)
			}
			obs, seen := cl.handler.takeObs()
			if !seen {
				return nil, fmt.Errorf("handler was not invoked for an event")
			}
			items := make([]string, len(obs))
			for i, x := range obs {
				items[i] = fmt.Sprintf("(%d, %d, %d)", x[0], x[1], x[2])
			}
			terms = append(terms, fmt.Sprintf("SEv %d %d %d %d %d %d %s", o.Key, o.Ns, o.Ek, o.Act, o.Val, o.Tm, hx.CoqList(items, "N * N * N")))
			jobs_ = append(jobs_, map[string]any{"ev": o, "state_seen": fmt.Sprint(obs)})
		case "wm":
			for i := range cl.ops {
				if err := cl.send(i, &workerpb.Event{Event: &workerpb.Event_Watermark{Watermark: &workerpb.Watermark{Timestamp: timestamppb.New(time.Unix(int64(o.T), 0))}}}); err != nil {
					return nil, fmt.Errorf("watermark: %v", err)
				}
			}
			fired := cl.handler.takeFired()
			items := make([]string, len(fired))
			for i, x := range fired {
				items[i] = fmt.Sprintf("(%d, %d)", x[0], x[1])
			}
			if len(fired) > 0 {
				tags["timers-fired"] = true
			}
			terms = append(terms, fmt.Sprintf("SWm %d %s", o.T, hx.CoqList(items, "N * N")))
			jobs_ = append(jobs_, map[string]any{"wm": o.T, "fired": fmt.Sprint(fired)})
		case "ckpt":
			// a completed job checkpoint without a restart; the retained-checkpoints update that follows it reaches
			// only the operators listed in perm (the others still list their older checkpoints), as when a rescale
			// or a failure interrupts the job's asynchronous UpdateRetainedCheckpoints broadcast
			if mode != "c06" {
				continue
			}
			if _, err := cl.checkpoint(); err != nil {
				return nil, err
			}
			reached := 0
			for _, i := range o.Perm {
				if i >= 0 && i < len(cl.ops) {
					if err := cl.ops[i].UpdateRetainedCheckpoints(nil, []uint64{cl.ckptID}); err != nil {
						tags["retain-update-error"] = true
					}
					reached++
					cl.retained = true
				}
			}
			if reached > 0 && reached < len(cl.ops) {
				tags["partial-retention-update"] = true
			} else if reached > 0 {
				tags["full-retention-update"] = true
			}
			if err := cl.waitTasks(); err != nil {
				return nil, err
			}
			jobs_ = append(jobs_, map[string]any{"checkpoint": cl.ckptID, "retention_update_reached": o.Perm})
		case "release":
			if mode != "c06" {
				continue
			}
			asked, deleted := cl.release(o.N, o.Perm)
			if asked > 0 {
				tags["shared-table-released"] = true
				for e, m := range o.Perm {
					if e != o.N && e < len(cl.ops) {
						tags[fmt.Sprintf("neighbour-answer-%d", m%4)] = true
					}
				}
			}
			terms = append(terms, fmt.Sprintf("SRelease %d %d", asked, deleted))
			jobs_ = append(jobs_, map[string]any{"release_at": o.N, "neighbour_modes": o.Perm, "asked": asked, "deleted": deleted})
		case "fresh":
			// C14: the job's life ends, the WORKING storage is deleted but the savepoint storage is kept; a fresh life of
			// the job (same operator names, checkpoint ids start again) follows over the same savepoint location
			if mode != "c14" || o.N < 1 || o.N > 8 {
				continue
			}
			cl.stopAll()
			cl.quiesce()
			cl.noMoreCollections() // the new life writes files under the same names (see D11 there)
			os.RemoveAll(cl.workDir())
			os.RemoveAll(filepath.Join(cl.jobDir(), "checkpoints"))
			cl.gen, cl.ckptID, cl.js, cl.lastCkpt = 0, 0, nil, nil
			if err := cl.deploy(o.N, nil); err != nil {
				return nil, err
			}
			terms = append(terms, fmt.Sprintf("SFresh %d", o.N))
			jobs_ = append(jobs_, map[string]any{"fresh_life_with": o.N})
			tags["fresh-life-same-savepoint-storage"] = true
		case "redeploy":
			// the checkpoints taken since the last deployment were never published by the job (operators checkpointed
			// locally, the job checkpoint was aborted): the job deploys the previous job checkpoint AGAIN
			if mode != "c06" || o.N < 1 || o.N > 8 || cl.lastCkpt == nil || cl.retained {
				continue
			}
			if err := cl.waitTasks(); err != nil {
				return nil, err
			}
			m := len(cl.ops)
			cl.reuse = o.Reuse
			term, j, nt, err := cl.restartFrom(cl.lastCkpt, o.N, tags, tableIDs, nkeys, false, "SRedeploy")
			if err != nil {
				return nil, err
			}
			nontrivial = nontrivial || nt
			terms = append(terms, term)
			jobs_ = append(jobs_, j)
			tags["redeploy-same-checkpoint"] = true
			tags[fmt.Sprintf("%d->%d", m, o.N)] = true
		case "rescale", "save":
			if o.N < 1 || o.N > 8 {
				continue
			}
			if o.Op == "rescale" && o.Reuse {
				cl.reuse = true
			}
			m := len(cl.ops)
			var term string
			var j any
			var nt bool
			var err error
			if o.Op == "save" {
				term, j, nt, err = cl.savepointRestart(o, tags, tableIDs, nkeys, &terms)
			} else {
				term, j, nt, err = cl.rescale(o, tags, tableIDs, nkeys)
			}
			if err == errStop {
				jobs_ = append(jobs_, j)
				stopped = true
				break
			}
			if err != nil {
				return nil, err
			}
			nontrivial = nontrivial || nt
			terms = append(terms, term)
			jobs_ = append(jobs_, j)
			tags[fmt.Sprintf("%d->%d", m, o.N)] = true
		}
	}
	if cl.reused > 0 {
		tags["ids-reused"] = true
	}
	if cl.refused > 0 {
		tags["reuse-refused-moved-range"] = true
	}
	var tl []string
	for t := range tags {
		tl = append(tl, t)
	}
	sort.Strings(tl)
	return &hx.Result{
		Term:       fmt.Sprintf("CRescale %d %d %s", kgc, n0, hx.CoqList(terms, "sop")),
		Nontrivial: nontrivial, Tags: tl, Observed: jobs_,
	}, nil
}

// rescale: checkpoint, record the acknowledgements in the order perm, restart with o.N operators
func (cl *cluster) rescale(o op, tags map[string]bool, tableIDs map[string]int, nkeys int) (string, any, bool, error) {
	acks, err := cl.checkpoint()
	if err != nil {
		return "", nil, false, err
	}
	m := len(acks)
	perm := normPerm(o.Perm, m)
	recorded := make([]*snapshotpb.OperatorCheckpoint, m)
	ident := true
	for i, p := range perm {
		recorded[i] = acks[p]
		if p != i {
			ident = false
		}
	}
	if !ident {
		tags["ack-permuted"] = true
	}
	ckpt := &snapshotpb.JobCheckpoint{Id: cl.ckptID, OperatorCheckpoints: recorded}
	return cl.restartFrom(ckpt, o.N, tags, tableIDs, nkeys, !ident, "SRescale")
}

func (cl *cluster) restartFrom(ckpt *snapshotpb.JobCheckpoint, n int, tags map[string]bool, tableIDs map[string]int, nkeys int, permuted bool, ctor string) (string, any, bool, error) {
	cl.lastCkpt, cl.retained = ckpt, false
	recorded := ckpt.OperatorCheckpoints
	m := len(recorded)
	// layouts
	layoutOK := true
	var refs []tableRef
	var recTerms []string
	withState := 0
	deepHandles := 0
	for _, r := range recorded {
		st := &layoutStats{}
		doc, err := layoutOf(r.DkvFileUri, r.CheckpointId, tableIDs, st, &refs)
		if err != nil {
			layoutOK = false
			tags["LAYOUT-UNAVAILABLE"] = true
			doc = "mkD [] []"
		}
		if st.entries+st.walEntries > 0 {
			withState++
		}
		if st.deepTables > 0 {
			deepHandles++
		}
		if st.walEntries > 0 {
			tags["wal-entries"] = true
		}
		if st.tables > 0 {
			tags["tables"] = true
		}
		recTerms = append(recTerms, fmt.Sprintf("((%d, %d), %s)", r.KeyGroupRange.Start, r.KeyGroupRange.End, doc))
	}
	if deepHandles >= 2 {
		tags["deep-tables-in-2+-handles"] = true
	} else if deepHandles == 1 {
		tags["deep-tables-in-1-handle"] = true
	}
	// restart
	cl.shared = refs
	cl.stopAll()
	if err := cl.deploy(n, ckpt); err != nil {
		return "", nil, false, fmt.Errorf("deploy: %v", err)
	}
	// observed assignment: positions of the handed checkpoints in the recorded order
	asg := make([][]int, n)
	for i, a := range cl.ops {
		for _, got := range a.gotCkpt {
			pos := -1
			for k, r := range recorded {
				if r == got {
					pos = k
				}
			}
			if pos < 0 {
				for k, r := range recorded {
					if r.OperatorId == got.OperatorId && r.CheckpointId == got.CheckpointId {
						pos = k
					}
				}
			}
			if pos < 0 {
				pos = 999999
			}
			asg[i] = append(asg[i], pos)
		}
	}
	// DB-level probes right after the restore: every subject key's state prefix and its key group's timer prefix,
	// at the operator the key is routed to
	probes := make([][]string, n)
	seenPrefix := map[string]bool{}
	for k := 0; k < nkeys; k++ {
		kb := keyBytes(uint64(k))
		i := cl.ks.RangeIndex(kb)
		db := cl.ops[i].real.VerifDKV()
		sp := operator.VerifEncodeSubjectKey(cl.ks, kb)
		tp := append(append([]byte{}, sp[0:2]...), 0x01)
		for _, pre := range [][]byte{sp, tp} {
			if seenPrefix[string(pre)] {
				continue
			}
			seenPrefix[string(pre)] = true
			t, _, err := scanCoq(db, pre)
			if err != nil {
				return "", nil, false, fmt.Errorf("probe scan: %v", err)
			}
			probes[i] = append(probes[i], t)
		}
	}
	pl := make([]string, n)
	for i := range probes {
		pl[i] = hx.CoqList(probes[i], "probe")
	}
	term := fmt.Sprintf("%s %d %s %s %s %s", ctor, n, hx.CoqList(recTerms, "kgrange * ckdoc"), asgCoq(asg), hx.CoqBool(layoutOK), hx.CoqList(pl, "list probe"))
	nt := withState >= 2 && (m != n || permuted)
	if withState >= 2 {
		tags["state-in-2+-old-operators"] = true
	}
	return term, map[string]any{"rescale_to": n, "recorded_operators": opIDs(recorded), "assignment": asg}, nt, nil
}

func opIDs(rs []*snapshotpb.OperatorCheckpoint) []string {
	out := make([]string, len(rs))
	for i, r := range rs {
		out[i] = fmt.Sprintf("%s[%d,%d)", r.OperatorId, r.KeyGroupRange.Start, r.KeyGroupRange.End)
	}
	return out
}

// ---------- CAssign / CDeploy ----------

type rng struct{ S, E int }

func execAssign(c *hx.Case) (*hx.Result, error) {
	var to, from []partitioning.KeyGroupRange
	for _, raw := range c.Ops {
		var r struct {
			Side string `json:"side"`
			S    int    `json:"s"`
			E    int    `json:"e"`
		}
		if err := json.Unmarshal(raw, &r); err != nil {
			return nil, err
		}
		if r.S < 0 || r.E < 0 {
			continue
		}
		if r.Side == "to" {
			to = append(to, partitioning.KeyGroupRange{Start: r.S, End: r.E})
		} else {
			from = append(from, partitioning.KeyGroupRange{Start: r.S, End: r.E})
		}
	}
	res := partitioning.AssignRanges(to, from)
	tags := []string{fmt.Sprintf("assign-to%d", min(len(to), 5)), fmt.Sprintf("assign-from%d", min(len(from), 5))}
	return &hx.Result{Term: fmt.Sprintf("CAssign %s %s %s", rangesCoq(to), rangesCoq(from), asgCoq(res)),
		Nontrivial: len(to) > 0 && len(from) > 1, Tags: tags, Observed: map[string]any{"result": res}}, nil
}

func execDeploy(c *hx.Case) (*hx.Result, error) {
	count, m, n := pInt(c, "count", 8), pInt(c, "m", 1), pInt(c, "n", 1)
	if count < 1 || count > 65535 || m < 1 || n < 1 || m > 200 || n > 200 {
		return nil, fmt.Errorf("parameters out of range")
	}
	var perm []int
	for _, raw := range c.Ops {
		var p struct {
			P int `json:"p"`
		}
		if err := json.Unmarshal(raw, &p); err != nil {
			return nil, err
		}
		perm = append(perm, p.P)
	}
	perm = normPerm(perm, m)
	old := partitioning.NewKeySpace(count, m).KeyGroupRanges()
	recorded := make([]*snapshotpb.OperatorCheckpoint, m)
	from := make([]partitioning.KeyGroupRange, m)
	ident := true
	for i, p := range perm {
		r := old[p]
		from[i] = r
		recorded[i] = &snapshotpb.OperatorCheckpoint{CheckpointId: 7, OperatorId: fmt.Sprintf("old%d", p), DkvFileUri: fmt.Sprintf("/x/old%d/checkpoints", p),
			KeyGroupRange: &snapshotpb.KeyGroupRange{Start: int32(r.Start), End: int32(r.End)}}
		if p != i {
			ident = false
		}
	}
	ads := make([]*opAdapter, n)
	protoOps := make([]proto.Operator, n)
	for i := range ads {
		ads[i] = &opAdapter{id: fmt.Sprintf("new%d", i)}
		protoOps[i] = ads[i]
	}
	asm := jobs.NewAssembly(protoOps, nil)
	if err := asm.Deploy(&config.Config{WorkerCount: n, KeyGroupCount: count, WorkingStorageLocation: "/x"}, &snapshotpb.JobCheckpoint{Id: 7, OperatorCheckpoints: recorded}); err != nil {
		return nil, err
	}
	handles := make([][]int, n)
	for i, a := range ads {
		if a.deploys != 1 {
			return nil, fmt.Errorf("operator %d deployed %d times", i, a.deploys)
		}
		for _, got := range a.gotCkpt {
			pos := 999999
			for k, r := range recorded {
				if r == got {
					pos = k
				}
			}
			handles[i] = append(handles[i], pos)
		}
	}
	tags := []string{}
	if !ident {
		tags = append(tags, "deploy-permuted")
	}
	switch {
	case m < n:
		tags = append(tags, "deploy-scale-out")
	case m > n:
		tags = append(tags, "deploy-scale-in")
	default:
		tags = append(tags, "deploy-same")
	}
	if count < m || count < n {
		tags = append(tags, "deploy-empty-ranges")
	}
	return &hx.Result{Term: fmt.Sprintf("CDeploy %d %d %s %s", count, n, rangesCoq(from), asgCoq(handles)),
		Nontrivial: m > 1 && !ident || m != n, Tags: tags, Observed: map[string]any{"from": fmt.Sprint(from), "handles": handles}}, nil
}

// A hang of the implementation (a barrier that never returns, a compaction loop that never ends) is detected by the
// supervisor of hx (no progress for its bound => the worker is killed and the case reported); the engine itself sets
// no deadline, so a slow machine cannot turn a correct run into a failure.
func (eng) Execute(mode string, c *hx.Case) (*hx.Result, error) {
	switch pStr(c, "kind") {
	case "assign":
		return execAssign(c)
	case "deploy":
		return execDeploy(c)
	}
	if alreadyFailing {
		// This worker was started by the supervisor after an earlier worker of the SAME run died or hung: the run already
		// carries a violation. Only then a case gets a bound of its own, to report a tree that hangs in many cases in
		// minutes instead of hours. It can sharpen a failing run, never fail a passing one.
		t := time.AfterFunc(20*time.Second, func() {
			fmt.Fprintf(os.Stderr, "case %s exceeded 20 s in a run that already failed: hang / livelock, worker exits\n", c.Name)
			os.Exit(3)
		})
		defer t.Stop()
	}
	if pStr(c, "kind") == "ticks" {
		return execTicks(c)
	}
	return execHistory(mode, c)
}

// alreadyFailing: hx's supervisor sets HX_AFTER_FAILURE=1 for the workers it starts after a worker died or was killed
// (workers are also recycled every 150 cases in a healthy run, so "-from N > 0" alone no longer means a failure)
var alreadyFailing = os.Getenv("HX_AFTER_FAILURE") == "1"

func main() {
	// Descriptors of table files written by a database stay open in this process after the tables are gone (they show
	// up as "NNNNNN.sst (deleted)"; about 20 per history, not released by garbage collection - reported as an observation
	// about the implementation in docs/C06.md). Thousands of histories run in one worker process, so the limit is
	// raised to the hard limit and the thorough tier is sized to stay below it (gen.go).
	var lim syscall.Rlimit
	if syscall.Getrlimit(syscall.RLIMIT_NOFILE, &lim) == nil && lim.Cur < lim.Max {
		lim.Cur = lim.Max
		syscall.Setrlimit(syscall.RLIMIT_NOFILE, &lim)
	}
	slog.SetDefault(slog.New(slog.NewTextHandler(io.Discard, nil)))
	_ = strings.TrimSpace
	hx.Main(eng{})
}
