package main

// Mode c14, kind "ticks": the REAL jobs.Job, started through its own start path (registration of n operators and
// n source runners -> assembly -> Deploy -> running), under a manual clock whose tickers honour Stop
// (clocks.VerifNewTicker): "tick" fires the job's real checkpoint ticker closure, "sp" calls the real
// HandleCreateSavepoint, "ack" acknowledges the pending checkpoint through the job. The fake source runners record
// every StartCheckpoint they receive. Nothing but the job's own code decides which rounds are broadcast.

import (
	"context"
	"encoding/json"
	"fmt"
	"os"
	"path/filepath"
	"sync"
	"time"

	"reduction.dev/reduction-protocol/jobconfigpb"
	"reduction.dev/reduction/clocks"
	"reduction.dev/reduction/config"
	"reduction.dev/reduction/connectors"
	"reduction.dev/reduction/jobs"
	"reduction.dev/reduction/proto"
	"reduction.dev/reduction/proto/jobpb"
	"reduction.dev/reduction/proto/snapshotpb"
	"reduction.dev/reduction/proto/workerpb"
	"reduction.dev/reduction/storage/locations"
	"verifharness/hx"
)

type manualClock struct {
	*clocks.FrozenClock
	mu      sync.Mutex
	tickers []*manualTicker
}
type manualTicker struct {
	label   string
	fn      func(*clocks.EveryContext)
	stopped bool
}

func (c *manualClock) Every(d time.Duration, fn func(*clocks.EveryContext), label string) *clocks.Ticker {
	t := &manualTicker{label: label, fn: fn}
	c.mu.Lock()
	c.tickers = append(c.tickers, t)
	c.mu.Unlock()
	return clocks.VerifNewTicker(func() { c.mu.Lock(); t.stopped = true; c.mu.Unlock() }, func() { fn(&clocks.EveryContext{}) })
}
func (c *manualClock) tick(label string) int {
	c.mu.Lock()
	var live []*manualTicker
	for _, t := range c.tickers {
		if t.label == label && !t.stopped {
			live = append(live, t)
		}
	}
	c.mu.Unlock()
	for _, t := range live {
		t.fn(&clocks.EveryContext{})
	}
	return len(live)
}

type tickSplitter struct {
	connectors.UnimplementedSourceSplitter
}

func (*tickSplitter) IsSourceSplitter()                               {}
func (*tickSplitter) Start(*snapshotpb.SourceCheckpoint) error        { return nil }
func (*tickSplitter) Close() error                                    { return nil }
func (*tickSplitter) NotifySplitsFinished(string, []string)           {}
func (*tickSplitter) Checkpoint() []byte                              { return nil }

type tickSource struct{}

func (tickSource) Validate() error { return nil }
func (tickSource) NewSourceSplitter([]string, connectors.SourceSplitterHooks, chan<- error) connectors.SourceSplitter {
	return &tickSplitter{}
}
func (tickSource) NewSourceReader(connectors.SourceReaderHooks) connectors.SourceReader { return nil }
func (tickSource) ProtoMessage() *jobconfigpb.Source                                   { return &jobconfigpb.Source{} }

type tickOp struct {
	proto.UnimplementedOperator
	id string
}

func (o *tickOp) ID() string                                                        { return o.id }
func (o *tickOp) Host() string                                                      { return "h" }
func (o *tickOp) Deploy(context.Context, *workerpb.DeployOperatorRequest) error     { return nil }
func (o *tickOp) UpdateRetainedCheckpoints(context.Context, []uint64) error         { return nil }
func (o *tickOp) NeedsTable(context.Context, string) (bool, error)                  { return true, nil }

type tickSR struct {
	proto.UnimplementedSourceRunner
	id      string
	mu      sync.Mutex
	started []uint64
}

func (s *tickSR) ID() string                                                            { return s.id }
func (s *tickSR) Host() string                                                          { return "h" }
func (s *tickSR) Deploy(context.Context, *workerpb.DeploySourceRunnerRequest) error     { return nil }
func (s *tickSR) AssignSplits(context.Context, []*workerpb.SourceSplit) error           { return nil }
func (s *tickSR) StartCheckpoint(ctx context.Context, id uint64) error {
	s.mu.Lock()
	s.started = append(s.started, id)
	s.mu.Unlock()
	return nil
}
func (s *tickSR) rounds() []uint64 { s.mu.Lock(); defer s.mu.Unlock(); return append([]uint64(nil), s.started...) }

func execTicks(c *hx.Case) (*hx.Result, error) {
	n := pInt(c, "n", 1)
	if n < 1 || n > 4 {
		return nil, fmt.Errorf("n out of range")
	}
	base := "/dev/shm"
	if _, err := os.Stat(base); err != nil {
		base = os.TempDir()
	}
	dir, err := os.MkdirTemp(base, "verif-ticks-")
	if err != nil {
		return nil, err
	}
	defer os.RemoveAll(dir)
	clock := &manualClock{FrozenClock: clocks.NewFrozenClock()}
	errs := make(chan error, 64)
	srs := map[string]*tickSR{}
	var srMu sync.Mutex
	job, err := jobs.New(&jobs.NewParams{
		JobConfig: &config.Config{WorkerCount: n, KeyGroupCount: 8, WorkingStorageLocation: filepath.Join(dir, "work"),
			Sources: []connectors.SourceConfig{tickSource{}}},
		Clock: clock, Store: locations.NewLocalDirectory(filepath.Join(dir, "job")), ErrChan: errs,
		OperatorFactory: func(sender string, node *jobpb.NodeIdentity) proto.Operator { return &tickOp{id: node.Id} },
		SourceRunnerFactory: func(node *jobpb.NodeIdentity) proto.SourceRunner {
			srMu.Lock()
			defer srMu.Unlock()
			if s := srs[node.Id]; s != nil {
				return s
			}
			s := &tickSR{id: node.Id}
			srs[node.Id] = s
			return s
		},
	})
	if err != nil {
		return nil, err
	}
	var opIDs, srIDs []string
	for i := 0; i < n; i++ {
		opIDs = append(opIDs, fmt.Sprintf("op%d", i))
		srIDs = append(srIDs, fmt.Sprintf("sr%d", i))
		// the operators' `checkpoints` files a savepoint artifact reads: every id present, no files referenced
		var cks []map[string]any
		for id := 1; id <= 40; id++ {
			cks = append(cks, map[string]any{"id": id, "wals": []any{}, "levels": []any{}})
		}
		b, _ := json.Marshal(map[string]any{"checkpoints": cks})
		os.MkdirAll(filepath.Join(dir, "work", opIDs[i]), 0o755)
		os.WriteFile(filepath.Join(dir, "work", opIDs[i], "checkpoints"), b, 0o644)
	}
	for i := 0; i < n; i++ {
		job.HandleRegisterOperator(&jobpb.NodeIdentity{Id: opIDs[i], Host: "h"})
		job.HandleRegisterSourceRunner(&jobpb.NodeIdentity{Id: srIDs[i], Host: "h"})
	}
	// no deadline on any wait here: a job that never gets there is a hang, reported by the supervisor of hx
	for job.VerifStatus() != "Running" {
		job.VerifSync()
		time.Sleep(200 * time.Microsecond) // waiting for the status, an explicit signal of the job
	}
	job.VerifSync()
	ctx := context.Background()
	agreed := func() ([]uint64, bool) {
		var first []uint64
		for i, id := range srIDs {
			srMu.Lock()
			s := srs[id]
			srMu.Unlock()
			var r []uint64
			if s != nil {
				r = s.rounds()
			}
			if i == 0 {
				first = r
			} else if fmt.Sprint(r) != fmt.Sprint(first) {
				return first, false
			}
		}
		return first, true
	}
	var acts []string
	var pending uint64
	isSavepoint := map[uint64]bool{}
	tags := map[string]bool{}
	for _, raw := range c.Ops {
		var o struct {
			Act string `json:"act"`
		}
		if err := json.Unmarshal(raw, &o); err != nil {
			return nil, err
		}
		before, _ := agreed()
		switch o.Act {
		case "tick":
			if clock.tick("checkpointing") != 1 {
				return nil, fmt.Errorf("the job has no live checkpoint ticker")
			}
			acts = append(acts, "0")
			if pending != 0 {
				tags["tick-while-pending"] = true
			}
		case "sp":
			if id, err := job.HandleCreateSavepoint(ctx); err == nil {
				isSavepoint[id] = true
			}
			acts = append(acts, "1")
			if pending != 0 {
				tags["savepoint-folds"] = true
			}
		case "ack":
			acts = append(acts, "2")
			if pending == 0 {
				continue
			}
			for _, id := range srIDs {
				job.HandleSourceRunnerCheckpointComplete(ctx, &jobpb.SourceRunnerCheckpointCompleteRequest{CheckpointId: pending, SourceRunnerId: id})
			}
			for i, id := range opIDs {
				job.HandleOperatorCheckpointComplete(ctx, &snapshotpb.OperatorCheckpoint{CheckpointId: pending, OperatorId: id,
					DkvFileUri: filepath.Join(dir, "work", id, "checkpoints"), KeyGroupRange: &snapshotpb.KeyGroupRange{Start: int32(i), End: int32(i + 1)}})
			}
			// the publication is asynchronous (job file, then - for a savepoint - the artifact copy): wait until all of it
			// is done, so that nothing of this job still writes when the case directory is removed
			for job.VerifCurrentCheckpointID() != pending {
				time.Sleep(200 * time.Microsecond)
			}
			for isSavepoint[pending] {
				if _, err := job.HandleGetSavepointURI(ctx, pending); err == nil {
					break
				}
				select {
				case e := <-errs:
					return nil, fmt.Errorf("savepoint %d of the tick scenario failed: %v", pending, e)
				default:
				}
				time.Sleep(200 * time.Microsecond)
			}
			pending = 0
			continue
		default:
			continue
		}
		after, _ := agreed()
		// the harness's own bookkeeping of "a checkpoint is pending": the last valid round not yet acknowledged
		if len(after) > len(before) && pending == 0 {
			if id := after[len(after)-1]; id != 0 {
				pending = id
			}
		}
	}
	rounds, same := agreed()
	rs := make([]string, len(rounds))
	for i, x := range rounds {
		rs[i] = fmt.Sprint(x)
	}
	if !same {
		rs = append(rs, "999999")
	}
	var tl []string
	for t := range tags {
		tl = append(tl, t)
	}
	return &hx.Result{Term: fmt.Sprintf("CSave (SpTicks %s %s)", hx.CoqList(acts, "N"), hx.CoqList(rs, "N")),
		Nontrivial: tags["tick-while-pending"] || tags["savepoint-folds"], Tags: tl,
		Observed: map[string]any{"acts": acts, "start_checkpoint_rounds": rounds}}, nil
}

func genTicks(r *hx.Rand, idx int) *hx.Case {
	var ops []json.RawMessage
	k := r.Range(3, 10)
	for i := 0; i < k; i++ {
		ops = append(ops, hx.Op(map[string]string{"act": hx.Pick(r, []string{"tick", "tick", "sp", "sp", "ack"})}))
	}
	return &hx.Case{Name: fmt.Sprintf("ticks-%d", idx), Params: map[string]any{"kind": "ticks", "mode": "c14", "n": r.Range(1, 3)}, Ops: ops}
}
