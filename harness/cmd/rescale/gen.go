package main

import (
	"encoding/json"
	"fmt"

	"verifharness/hx"
)

func genAssign(r *hx.Rand, idx int) *hx.Case {
	var ops []json.RawMessage
	add := func(side string, s, e int) {
		ops = append(ops, hx.Op(map[string]any{"side": side, "s": s, "e": e}))
	}
	style := r.Intn(4)
	span := r.Range(1, 40)
	mk := func(side string, shuffle bool) {
		k := r.Range(0, 6)
		var rs [][2]int
		switch style {
		case 0, 1: // a partition of [0, span)
			cuts := []int{0}
			for i := 0; i < k; i++ {
				cuts = append(cuts, r.Range(0, span))
			}
			cuts = append(cuts, span)
			for i := 1; i < len(cuts); i++ {
				for j := i; j > 0 && cuts[j] < cuts[j-1]; j-- {
					cuts[j], cuts[j-1] = cuts[j-1], cuts[j]
				}
			}
			for i := 0; i+1 < len(cuts); i++ {
				rs = append(rs, [2]int{cuts[i], cuts[i+1]})
			}
		default: // arbitrary, possibly overlapping / empty
			for i := 0; i < k; i++ {
				s := r.Range(0, span)
				rs = append(rs, [2]int{s, s + r.Range(0, 6)})
			}
		}
		if shuffle {
			hx.Shuffle(r, rs)
		}
		for _, x := range rs {
			add(side, x[0], x[1])
		}
	}
	mk("to", style == 3)
	mk("from", style != 0)
	return &hx.Case{Name: fmt.Sprintf("assign-%d", idx), Params: map[string]any{"kind": "assign"}, Ops: ops}
}

func genPerm(r *hx.Rand, m int) []int {
	p := make([]int, m)
	for i := range p {
		p[i] = i
	}
	switch r.Intn(5) {
	case 0:
	case 1:
		for i, j := 0, m-1; i < j; i, j = i+1, j-1 {
			p[i], p[j] = p[j], p[i]
		}
	case 2:
		if m > 1 {
			k := r.Range(1, m-1)
			p = append(p[k:], p[:k]...)
		}
	default:
		hx.Shuffle(r, p)
	}
	return p
}

func genDeploy(r *hx.Rand, idx int) *hx.Case {
	m, n := r.Range(1, 12), r.Range(1, 12)
	if r.Chance(1, 8) {
		m, n = r.Range(1, 40), r.Range(1, 40)
	}
	count := hx.Pick(r, []int{1, 2, 3, 5, 8, 16, 100, 256, 257, 1000, 65535})
	if r.Chance(1, 3) {
		count = r.Range(1, 300)
	}
	if r.Chance(2, 3) && count < max(m, n) {
		count = max(m, n) + r.Range(0, 10)
	}
	var ops []json.RawMessage
	for _, p := range genPerm(r, m) {
		ops = append(ops, hx.Op(map[string]any{"p": p}))
	}
	return &hx.Case{Name: fmt.Sprintf("deploy-%d", idx), Params: map[string]any{"kind": "deploy", "count": count, "m": m, "n": n}, Ops: ops}
}

type tune struct{ mem, tfs, l0, sls int }

func genTune(r *hx.Rand) tune {
	switch r.Intn(6) {
	case 0:
		return tune{1 << 20, 1 << 20, 2, 1 << 20} // everything in memory / WAL
	case 1:
		return tune{hx.Pick(r, []int{48, 96, 160}), 1 << 20, 4, 1 << 20} // level 0 only (mostly)
	case 2:
		return tune{hx.Pick(r, []int{48, 96, 160}), 1 << 20, 2, 1 << 20} // level 1, one table
	case 3:
		return tune{hx.Pick(r, []int{48, 96}), hx.Pick(r, []int{40, 80, 160}), 2, 1 << 20} // several tables per level
	default:
		return tune{hx.Pick(r, []int{48, 96, 200}), hx.Pick(r, []int{60, 120, 1 << 20}), hx.Pick(r, []int{2, 3}), hx.Pick(r, []int{64, 256, 1 << 20})} // deeper levels
	}
}

func genEvents(r *hx.Rand, ops *[]json.RawMessage, nkeys int, k int, val *uint64, wm *uint64, tmBase uint64) {
	for i := 0; i < k; i++ {
		if r.Chance(1, 12) {
			*wm += uint64(r.Range(1, 8))
			*ops = append(*ops, hx.Op(op{Op: "wm", T: *wm}))
			continue
		}
		o := op{Op: "ev", Key: uint64(r.Intn(nkeys)), Ns: uint64(r.Intn(2)), Ek: uint64(r.Intn(3))}
		switch x := r.Intn(10); {
		case x < 7:
			*val++
			o.Act, o.Val = 1, *val
		case x < 9:
			o.Act = 2
		}
		if r.Chance(1, 4) {
			o.Tm = tmBase + uint64(r.Range(1, 40))
		}
		*ops = append(*ops, hx.Op(o))
	}
}

func genHistory(r *hx.Rand, idx int, tier, mode string) *hx.Case {
	nkeys := r.Range(4, 10)
	kgc := hx.Pick(r, []int{2, 3, 4, 8, 8, 16, 16, 64, 256})
	n0 := r.Range(1, 4)
	t := genTune(r)
	var ops []json.RawMessage
	var val, wm uint64
	nres := r.Range(1, 3)
	n := n0
	genEvents(r, &ops, nkeys, r.Range(5, 40), &val, &wm, wm)
	for i := 0; i < nres; i++ {
		n2 := r.Range(1, 4)
		if r.Chance(1, 2) && n2 == n {
			n2 = n%4 + 1
		}
		if mode == "c06" && r.Chance(1, 2) {
			// one or two completed checkpoints before the rescale whose retention update reaches a random subset of the
			// operators: their checkpoints files then list different ids at different positions
			for k := r.Range(1, 2); k > 0; k-- {
				var subset []int
				for i := 0; i < n; i++ {
					if r.Chance(1, 2) {
						subset = append(subset, i)
					}
				}
				ops = append(ops, hx.Op(op{Op: "ckpt", Perm: subset}))
				genEvents(r, &ops, nkeys, r.Range(0, 8), &val, &wm, wm)
			}
		}
		o := op{Op: "rescale", N: n2, Perm: genPerm(r, n)}
		if mode == "c06" {
			o.Reuse = r.Chance(1, 3)
		}
		if mode == "c14" {
			o.Op = "save"
			o.Fold, o.Late, o.Retain = r.Chance(1, 3), r.Chance(1, 2), r.Chance(1, 3)
			if o.Late && r.Chance(1, 3) {
				o.Over, o.Retain = true, false
			}
			if r.Chance(1, 5) {
				o.Fault = r.Range(1, 6)
			}
		}
		ops = append(ops, hx.Op(o))
		n = n2
		wm = 0
		if mode == "c06" && r.Chance(1, 4) {
			// the operators work on and checkpoint locally, but the job checkpoint is never published; the job then
			// deploys the PREVIOUS job checkpoint again (same or another operator count, ids reused or fresh)
			genEvents(r, &ops, nkeys, r.Range(1, 8), &val, &wm, 0)
			if r.Chance(3, 4) {
				ops = append(ops, hx.Op(op{Op: "ckpt"}))
				genEvents(r, &ops, nkeys, r.Range(0, 4), &val, &wm, 0)
			}
			n3 := n2
			if r.Chance(1, 2) {
				n3 = r.Range(1, 4)
			}
			ops = append(ops, hx.Op(op{Op: "redeploy", N: n3, Reuse: r.Chance(1, 2)}))
			n, n2 = n3, n3
			wm = 0
		}
		if mode == "c06" && n2 >= 2 && r.Chance(1, 3) {
			// some events, then one operator lets go of the old tables it shares with its neighbours while their
			// NeedsTable answers are: real / RPC error / cancelled on the neighbour's side / slow
			genEvents(r, &ops, nkeys, r.Range(0, 6), &val, &wm, 0)
			modes := make([]int, n2)
			for i := range modes {
				modes[i] = hx.Pick(r, []int{0, 1, 2, 2, 3})
			}
			ops = append(ops, hx.Op(op{Op: "release", N: r.Intn(n2), Perm: modes}))
		}
		genEvents(r, &ops, nkeys, r.Range(0, 30), &val, &wm, 0)
	}
	// final probe of every key and final watermark
	for k := 0; k < nkeys; k++ {
		ops = append(ops, hx.Op(op{Op: "ev", Key: uint64(k)}))
	}
	ops = append(ops, hx.Op(op{Op: "wm", T: 1000}))
	return &hx.Case{Name: fmt.Sprintf("hist-%d", idx), Params: map[string]any{"kind": "history", "mode": mode, "kgc": kgc, "n0": n0, "nkeys": nkeys,
		"mem": t.mem, "tfs": t.tfs, "l0": t.l0, "sls": t.sls}, Ops: ops}
}

// two lives of the job over the same savepoint storage: life 1 takes savepoint id 1 with n operators, the working
// storage is wiped, a fresh life with the same operator names and DIFFERENT state takes savepoint id 1 again into the
// same location, wipe, restore from it: the state must be life 2's
func genTwoLives(r *hx.Rand, idx int) *hx.Case {
	nkeys := r.Range(3, 6)
	n := r.Range(1, 3)
	t := genTune(r)
	var ops []json.RawMessage
	var val, wm uint64
	genEvents(r, &ops, nkeys, r.Range(4, 15), &val, &wm, wm)
	ops = append(ops, hx.Op(op{Op: "save", N: n, Perm: genPerm(r, n), Fold: r.Chance(1, 3)}))
	ops = append(ops, hx.Op(op{Op: "fresh", N: n}))
	wm = 0
	val += 100
	genEvents(r, &ops, nkeys, r.Range(4, 15), &val, &wm, 0)
	n2 := n
	if r.Chance(1, 3) {
		n2 = r.Range(1, 3)
	}
	ops = append(ops, hx.Op(op{Op: "save", N: n2, Perm: genPerm(r, n), Fold: r.Chance(1, 3)}))
	for k := 0; k < nkeys; k++ {
		ops = append(ops, hx.Op(op{Op: "ev", Key: uint64(k)}))
	}
	ops = append(ops, hx.Op(op{Op: "wm", T: 1000}))
	return &hx.Case{Name: fmt.Sprintf("lives-%d", idx), Params: map[string]any{"kind": "history", "mode": "c14", "kgc": 8, "n0": n, "nkeys": nkeys,
		"mem": t.mem, "tfs": t.tfs, "l0": t.l0, "sls": t.sls}, Ops: ops}
}

func (eng) Generate(mode, tier string, r *hx.Rand) []*hx.Case {
	var cs []*hx.Case
	if mode == "c14" {
		nh := 40
		if tier == "thorough" {
			nh = 300 // bounded by the descriptors a worker process accumulates (see main.go)
		}
		for i := 0; i < nh; i++ {
			cs = append(cs, genHistory(r.Fork(), i, tier, mode))
		}
		nt, nf := 40, 10
		if tier == "thorough" {
			nt, nf = 400, 80
		}
		for i := 0; i < nt; i++ {
			cs = append(cs, genTicks(r.Fork(), i))
		}
		for i := 0; i < nf; i++ {
			cs = append(cs, genTwoLives(r.Fork(), i))
		}
		return cs
	}
	na, nd, nh := 300, 400, 150
	if tier == "thorough" {
		na, nd, nh = 3000, 4000, 600 // histories bounded by the descriptors a worker process accumulates (see main.go)
	}
	for i := 0; i < na; i++ {
		cs = append(cs, genAssign(r.Fork(), i))
	}
	for i := 0; i < nd; i++ {
		cs = append(cs, genDeploy(r.Fork(), i))
	}
	for i := 0; i < nh; i++ {
		cs = append(cs, genHistory(r.Fork(), i, tier, mode))
	}
	return cs
}
