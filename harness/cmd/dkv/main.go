// engine dkv: the real LSM store of /repo.
// mode c07: a real dkv.DB on storage.NewMemoryFilesystem() with tiny sizes; the background flush and compaction tasks are
//
//	parked at the verifhook points of dkv/db.go and released at generated points (deterministic, no sleeping);
//	observables: every Get and ScanPrefix result.
//
// mode c18: layouts built with sst.TableWriter + sst.NewLevelListOfTables, sst.Compactor stepped with new level-0 tables
//
//	arriving between Compact and the application of its change set; observables: LevelList.Get/ScanPrefix of every
//	key/prefix before and after each step and the key ranges of the tables of every level.
package main

import (
	"bytes"
	"encoding/json"
	"errors"
	"fmt"
	"io"
	"log/slog"
	"path"
	"slices"
	"sort"
	"strings"
	"sync"
	"sync/atomic"
	"time"

	"reduction.dev/reduction/dkv"
	"reduction.dev/reduction/dkv/kv"
	"reduction.dev/reduction/dkv/sst"
	"reduction.dev/reduction/dkv/storage"
	"reduction.dev/reduction/util/verifhook"
	"verifharness/hx"
)

type eng struct{}

func main() { hx.Main(eng{}) }

func (eng) Name() string { return "dkv" }
func (eng) CoqRequire(mode string) string {
	return "From RV Require Import Base.Bytes Model.LsmBase Model.LsmCompaction Model.Lsm Corr.Check_dkv."
}
func (eng) CoqCaseType(mode string) string { return "Check_dkv.case" }
func (eng) CoqRun(mode string) string      { return "Check_dkv.run" }
func (eng) Rule(mode string) string {
	if mode == "c18" {
		return "c18: valid layouts (2..6 levels, 0..4 level-0 tables, deeper levels of 0..3 range-disjoint tables, populated middle levels) built from a random write history split chronologically; random compactor settings (trigger 1..4, amplification 1..1000 %, smallest level size 0..20000, target table size 30..100000); Compact stepped to nil with 0..2 new level-0 tables between Compact and the apply. Non-trivial: at least one non-nil step on a layout with two or more populated levels."
	}
	return "c07: histories of 15..70 operations over 4..8 keys with shared prefixes (incl. the empty key), MemTableSize 19..160, MaxWALSize small or unlimited, L0 trigger 1..4, tuned compactor constants; flush and compaction tasks advanced one half-step (F1,F2,C1,C2) at generated points, also between the two snapshots of a read; some F1 / C1 half-steps have the Save of their first table held (a slow upload) so that table writes of the flush and of the compaction overlap, every table file name must be created and saved once; one in four C1 half-steps runs with a storage read fault (ReadAt of one table fails from a generated offset) - a Compact that returns the error ends the task, reads must stay 'latest write wins' either way. Non-trivial: some read happened while the level list held a table and some flush swap was executed."
}

// ---------------------------------------------------------------- shared helpers

func pint(p map[string]any, k string, def int) int {
	v, ok := p[k]
	if !ok {
		return def
	}
	switch x := v.(type) {
	case float64:
		return int(x)
	case int:
		return x
	case json.Number:
		n, _ := x.Int64()
		return int(n)
	}
	return def
}

func coqList(items []string, ty string) string { return hx.CoqList(items, ty) }

func coqGetRes(e kv.Entry, err error) (string, string, error) {
	if err == nil {
		if e.IsDelete() {
			return "GDeleted", "deleted", nil
		}
		return "(GFound " + hx.CoqBytes(e.Value()) + ")", "found:" + string(e.Value()), nil
	}
	if errors.Is(err, kv.ErrNotFound) {
		return "GAbsent", "absent", nil
	}
	return "", "", err
}

type kvPair struct{ K, V []byte }

func coqKVs(ps []kvPair) string {
	items := make([]string, len(ps))
	for i, p := range ps {
		items[i] = hx.CoqPair(hx.CoqBytes(p.K), hx.CoqBytes(p.V))
	}
	return coqList(items, "bytes * bytes")
}

func jsonKVs(ps []kvPair) []string {
	out := make([]string, len(ps))
	for i, p := range ps {
		out[i] = fmt.Sprintf("%q=%q", p.K, p.V)
	}
	return out
}

var keyPool = [][]byte{[]byte("a"), []byte("ab"), []byte("abc"), []byte("b"), []byte("ba"), []byte("c"), []byte("a\x00"), []byte("ac"), []byte("bb"), []byte("abd")}
var prefixPool = [][]byte{{}, []byte("a"), []byte("ab"), []byte("b"), []byte("c"), []byte("abc"), []byte("x"), []byte("a\x00")}

func pickKeys(r *hx.Rand) [][]byte {
	pool := slices.Clone(keyPool)
	hx.Shuffle(r, pool)
	n := r.Range(4, 8)
	ks := pool[:n]
	if r.Chance(1, 5) {
		ks = append(ks, []byte{})
	}
	return ks
}

func randVal(r *hx.Rand) []byte {
	n := r.Range(0, 3)
	if r.Chance(1, 6) {
		n = r.Range(8, 30)
	}
	b := make([]byte, n)
	for i := range b {
		b[i] = byte('0' + r.Intn(10))
	}
	return b
}

// ---------------------------------------------------------------- mode c07

type op7 struct {
	Op string   `json:"op"` // put | del | get | scan | bg
	K  []byte   `json:"k,omitempty"`
	V  []byte   `json:"v,omitempty"`
	A  string   `json:"a,omitempty"`  // for bg: F1 F2 C1 C2
	Bg []string `json:"bg,omitempty"` // for get/scan: background half-steps between the two snapshots of the read
}

var bgKinds = []string{"F1", "F2", "C1", "C2"}

func pickBg(r *hx.Rand) string {
	a := hx.Pick(r, bgKinds)
	switch {
	case a == "C1" && r.Chance(1, 4):
		return fmt.Sprintf("C1f%d:%d", r.Intn(8), r.Range(0, 90))
	case a == "C1" && r.Chance(1, 3):
		return "C1g"
	case a == "F1" && r.Chance(1, 4):
		return "F1g"
	}
	return a
}

func genC07(r *hx.Rand, idx int) *hx.Case {
	keys := pickKeys(r)
	mem := r.Range(19, 60)
	if r.Chance(1, 3) {
		mem = r.Range(60, 160)
	}
	wal := 1 << 30
	if r.Chance(1, 5) {
		wal = r.Range(40, 200)
	}
	params := map[string]any{
		"mode": "c07", "mem": mem, "wal": wal,
		"trig":     r.Range(1, 4),
		"maxamp":   hx.Pick(r, []int{1, 10, 25, 50, 100, 150, 200, 300, 1000}),
		"smallest": hx.Pick(r, []int{1, 2000, 4200, 8300, 9000, 13000, 20000}),
		"target":   hx.Pick(r, []int{30, 60, 120, 500, 100000}),
	}
	n := r.Range(15, 70)
	// background eagerness differs per case: lazy cases accumulate sealed memtables and level-0 tables
	bgw := hx.Pick(r, []int{8, 20, 35, 55})
	var ops []json.RawMessage
	randBg := func(max int) []string {
		k := r.Intn(max + 1)
		out := make([]string, k)
		for i := range out {
			out[i] = pickBg(r)
		}
		return out
	}
	for i := 0; i < n; i++ {
		x := r.Intn(100)
		switch {
		case x < bgw:
			ops = append(ops, hx.Op(op7{Op: "bg", A: pickBg(r)}))
		case x < bgw+(100-bgw)*45/100:
			ops = append(ops, hx.Op(op7{Op: "put", K: hx.Pick(r, keys), V: randVal(r)}))
		case x < bgw+(100-bgw)*60/100:
			ops = append(ops, hx.Op(op7{Op: "del", K: hx.Pick(r, keys)}))
		case x < bgw+(100-bgw)*88/100:
			ops = append(ops, hx.Op(op7{Op: "get", K: hx.Pick(r, keys), Bg: randBg(4)}))
		default:
			ops = append(ops, hx.Op(op7{Op: "scan", K: hx.Pick(r, prefixPool), Bg: randBg(4)}))
		}
	}
	return &hx.Case{Name: fmt.Sprintf("c07-%d", idx), Params: params, Ops: ops}
}

// netWait bounds every wait of the scheduler for an event that MUST happen (a parked task reaching its next hook point, a
// read finishing or parking). It is not a synchronisation device: every recorded observation is ordered after the event
// by a channel handoff. Its expiry means the system under test is wedged (deadlock / a task died between hook points
// where no detection exists) and is reported as an engine error, never as an observation; it is far above any scheduling
// delay under load and below hx's 180 s no-progress detector so that the message names the missing event.
const netWait = 120 * time.Second

type sched struct {
	db                *dkv.DB
	arrive            map[string]chan struct{}
	release           map[string]chan struct{}
	flushPending      int
	compPending       int
	fstate            int // 0 idle, 1 parked before the swap
	cstate            int // 0 idle, 1 parked at the loop head, 2 parked before the swap
	acts              []string
	log               []string
	tags              map[string]bool
	err               error
	swaps             int
	readWithTbl       bool
	flushedKeys       map[string]bool // keys that are in some table of the level list
	sealedKeys        []map[string]bool
	activeKeys        map[string]bool
	ffs               *faultFS
	beginArrived      bool          // the next compaction task already reported dkv.compact.begin
	failedTasks       int           // compaction tasks that ended with a (fault-induced) error
	gateHolder        string        // "F" / "C": the task whose table Save is parked at the gate
	c1Idx             int           // position in acts of the OC1 whose change set is filled in when it is applied
	probe             chan struct{} // the one probe function outstanding on the compaction queue (nil: none)
	flushBeginArrived bool          // the next flush task already reported dkv.flush.begin
	flushLimit        int           // capacity of the process-wide flush queue of the code under test
	compLimit         int           // capacity of the compaction queue
}

var hookNames = []string{"dkv.flush.begin", "dkv.flush.swap", "dkv.flush.end", "dkv.compact.begin", "dkv.compact.iter",
	"dkv.compact.swap", "dkv.compact.end", "dkv.get.between", "dkv.scan.between"}

func (s *sched) wait(name string) bool {
	if s.err != nil {
		return false
	}
	select {
	case <-s.arrive[name]:
		return true
	case <-time.After(netWait): // safety net only: a task that never reaches its hook point
		s.err = fmt.Errorf("background task did not reach hook point %s", name)
		return false
	}
}
func (s *sched) rel(name string) {
	if s.err != nil {
		return
	}
	select {
	case s.release[name] <- struct{}{}:
	case <-time.After(netWait):
		s.err = fmt.Errorf("nobody parked at hook point %s", name)
	}
}
func (s *sched) emit(term, human string) {
	s.acts = append(s.acts, term)
	s.log = append(s.log, human)
}

func (s *sched) f1(gate bool) bool {
	if s.fstate != 0 || s.flushPending == 0 || s.err != nil {
		return false
	}
	if !s.flushBeginArrived && !s.wait("dkv.flush.begin") {
		return false
	}
	s.flushBeginArrived = false
	if gate && s.gateHolder == "" {
		// hold the Save of the first table this flush writes; released by the next F2
		s.ffs.gateArmed.Store(true)
		s.rel("dkv.flush.begin")
		select {
		case <-s.ffs.gateArrive:
			s.fstate = 3
			s.gateHolder = "F"
			s.tags["flush_save_held"] = true
		case <-s.arrive["dkv.flush.swap"]:
			s.fstate = 1
		case <-time.After(netWait):
			s.err = fmt.Errorf("flush task reached neither a table Save nor dkv.flush.swap")
			return false
		}
		s.ffs.gateArmed.Store(false)
	} else {
		s.rel("dkv.flush.begin")
		if !s.wait("dkv.flush.swap") {
			return false
		}
		s.fstate = 1
	}
	if s.cstate == 3 {
		s.tags["flush_wrote_while_compaction_save_held"] = true
	}
	s.flushPending--
	s.emit("OF1", "F1")
	return true
}

func (s *sched) f2() bool {
	if s.fstate == 3 && s.err == nil {
		s.releaseGate()
		if !s.wait("dkv.flush.swap") {
			return false
		}
		s.fstate = 1
	}
	if s.fstate != 1 || s.err != nil {
		return false
	}
	// Enqueue blocks when the queue already holds its limit of functions (limit read from the code under test): the queue
	// holds at most the tasks not yet started plus one sentinel, so make room first by running compaction tasks to their
	// end - recorded as ordinary steps
	for s.compPending >= max(1, s.compLimit-1) && s.err == nil {
		s.runCompactionTask()
	}
	// the tables the flush installs = the difference of level 0 across its locked swap (the compaction task is parked or
	// idle; both reads are ordered with the swap by the hook handoffs)
	before := s.db.VerifC07Tables()
	s.rel("dkv.flush.swap")
	if !s.wait("dkv.flush.end") {
		return false
	}
	after := s.db.VerifC07Tables()
	s.rel("dkv.flush.end")
	// wait until the flush task FUNCTION has returned (it queues its compaction task, if any, after the end hook): the next
	// flush task's begin, or a sentinel queued behind it on the serial flush queue
	if s.flushPending > 0 {
		if !s.wait("dkv.flush.begin") {
			return false
		}
		s.flushBeginArrived = true
	} else {
		fin := make(chan struct{}, 1)
		s.db.VerifC07EnqueueFlush(func() error { fin <- struct{}{}; return nil })
		select {
		case <-fin:
		case <-time.After(netWait):
			s.err = fmt.Errorf("the flush task did not return after dkv.flush.end")
			return false
		}
	}
	was := map[*sst.Table]bool{}
	for _, l := range before {
		for _, t := range l {
			was[t] = true
		}
	}
	var outs [][]ent
	if len(after) > 0 {
		for _, t := range after[0] {
			if !was[t] {
				outs = append(outs, tableEntries(t))
			}
		}
	}
	s.fstate = 0
	s.compPending++
	s.swaps++
	s.emit("(OF2 "+coqTables(outs)+")", fmt.Sprintf("F2(%d tables)", len(outs)))
	return true
}

// parseFault: "C1f<table index>:<offset>" arms a storage read fault for the Compact call of this half-step;
// "C1g" / "F1g" hold the first table Save of the step (see gate).
func parseFault(a string) (kind string, fault *fault18) {
	if strings.HasPrefix(a, "C1f") {
		var f fault18
		if _, err := fmt.Sscanf(a[3:], "%d:%d", &f.T, &f.Off); err == nil {
			return "C1", &f
		}
		return "C1", nil
	}
	if a == "C1g" {
		return "C1", nil
	}
	if a == "F1g" {
		return "F1", nil
	}
	return a, nil
}

// ensureProbe keeps exactly one probe function outstanding on the serial compaction queue. A probe runs when everything
// queued before it is over, so (a) a probe queued while the task queue is otherwise quiet that fires without a
// dkv.compact.begin arriving first means NO compaction task is queued, and (b) a probe queued behind the running task
// fires when that task (and the tasks queued before the probe) are over.
func (s *sched) ensureProbe() (ch chan struct{}, fresh bool) {
	if s.probe == nil {
		s.probe = make(chan struct{}, 1)
		c := s.probe
		s.db.VerifC07EnqueueCompaction(func() error { c <- struct{}{}; return nil })
		return s.probe, true
	}
	return s.probe, false
}

// startCompTask brings the next compaction task to its loop head - if one is queued. How many compaction tasks the flushes
// queue is not predicted (a database may coalesce them): it is found out through the probe.
func (s *sched) startCompTask() bool {
	if s.cstate != 0 {
		return true
	}
	if s.err != nil {
		return false
	}
	useProbe := s.compLimit >= 2
	if !useProbe && !s.beginArrived && s.compPending == 0 {
		return false
	}
	for !s.beginArrived {
		var p chan struct{}
		fresh := false
		if useProbe {
			p, fresh = s.ensureProbe()
		}
		select {
		case <-s.arrive["dkv.compact.begin"]:
			s.beginArrived = true
		case <-p:
			s.probe = nil
			if fresh { // nothing was queued in front of the probe
				s.compPending = 0
				s.tags["c1_without_queued_task"] = true
				return false
			}
		case <-time.After(netWait):
			s.err = fmt.Errorf("neither a compaction task nor the probe behind the queued ones started")
			return false
		}
	}
	s.beginArrived = false
	if useProbe {
		// a probe that fired before this task began (the serial queue orders it before the begin) is stale; the new one sits
		// behind this task
		if s.probe != nil {
			select {
			case <-s.probe:
				s.probe = nil
			default:
			}
		}
		s.ensureProbe()
	}
	s.rel("dkv.compact.begin")
	if !s.wait("dkv.compact.iter") {
		return false
	}
	if s.compPending > 0 {
		s.compPending--
	}
	s.cstate = 1
	return true
}

// taskEndWatch returns the channels on which the END of the running compaction task is observed when the task does not pass a
// hook point any more (Compact returned an error): the probe queued behind it, or the next queued task's
// dkv.compact.begin, which the serial queue orders after the end of this one.
func (s *sched) taskEndWatch() (sentinel, nextBegin chan struct{}) {
	if s.compLimit >= 2 {
		p, _ := s.ensureProbe()
		return p, s.arrive["dkv.compact.begin"]
	}
	return nil, s.arrive["dkv.compact.begin"]
}

// probeFired is a no-op kept for readability at the places where a task is known to be over: the outstanding probe (if any)
// will fire by itself and is recognised as stale by startCompTask.
func (s *sched) probeFired() {}

// taskDied records that the compaction task ended with an error instead of reaching a hook point.
func (s *sched) taskDied() {
	s.cstate = 0
	s.probeFired()
	s.failedTasks++
	if s.ffs.faults.Load() > 0 {
		s.tags["fault_hit_compact_error"] = true
	} else {
		// no fault was injected: the error itself is an observation (code 101)
		s.tags["compaction_task_error_without_fault"] = true
		s.emit("OTaskErr", "compaction task ended with an error although no fault was injected")
	}
	s.emit("OC1F", "C1:failed")
}

// releaseGate lets the table Save that is parked at the gate finish.
func (s *sched) releaseGate() {
	select {
	case s.ffs.gateRelease <- struct{}{}:
	case <-time.After(netWait):
		s.err = fmt.Errorf("no table Save parked at the gate")
	}
	s.gateHolder = ""
}

// c1g: a C1 half-step whose first output-table Save is held (the compaction is "uploading" its table) so that later
// half-steps - a flush writing its tables - overlap with it; the Save is released by the next C2.
func (s *sched) c1g() bool {
	if s.err != nil || s.gateHolder != "" {
		return s.c1(nil)
	}
	if !s.startCompTask() || s.cstate != 1 {
		return false
	}
	s.ffs.faults.Store(0)
	sentinel, nextBegin := s.taskEndWatch()
	s.ffs.gateArmed.Store(true)
	s.rel("dkv.compact.iter")
	if s.err != nil {
		return false
	}
	select {
	case <-s.ffs.gateArrive:
		s.cstate = 3
		s.gateHolder = "C"
		s.tags["compaction_save_held"] = true
		s.c1Idx = len(s.acts)
		s.emit("(OC1 PENDING)", "C1:cs(save held)")
	case <-s.arrive["dkv.compact.swap"]:
		s.cstate = 2
		s.c1Idx = len(s.acts)
		s.emit("(OC1 PENDING)", "C1:cs")
	case <-s.arrive["dkv.compact.end"]:
		s.rel("dkv.compact.end")
		s.cstate = 0
		s.probeFired()
		s.emit("(OC1 (@None changeset))", "C1:nil")
	case <-sentinel:
		s.probe = nil
		s.taskDied()
	case <-nextBegin:
		s.beginArrived = true
		s.taskDied()
	case <-time.After(netWait):
		s.err = fmt.Errorf("compaction task reached neither a table Save nor dkv.compact.swap nor dkv.compact.end")
	}
	s.ffs.gateArmed.Store(false)
	return s.err == nil
}

func (s *sched) c1(fault *fault18) bool {
	if s.err != nil {
		return false
	}
	if !s.startCompTask() || s.cstate != 1 {
		return false
	}
	// a read fault on one table while Compact runs; if Compact returns an error the task ends without passing a hook
	// point: its end is observed through taskEndWatch (with or without an injected fault)
	s.ffs.faults.Store(0)
	sentinel, nextBegin := s.taskEndWatch()
	if fault != nil {
		if names := s.db.VerifC07TableNames(); len(names) > 0 {
			s.ffs.failName = names[((fault.T%len(names))+len(names))%len(names)]
			s.ffs.failFrom = int64(fault.Off)
			s.ffs.armed.Store(true)
			s.tags["fault_armed"] = true
		}
	}
	s.rel("dkv.compact.iter")
	if s.err != nil {
		return false
	}
	ok := true
	select {
	case <-s.arrive["dkv.compact.swap"]:
		s.cstate = 2
		if s.ffs.faults.Load() > 0 {
			s.tags["fault_hit_but_change_set"] = true
		}
		s.c1Idx = len(s.acts)
		s.emit("(OC1 PENDING)", "C1:cs")
	case <-s.arrive["dkv.compact.end"]:
		s.rel("dkv.compact.end")
		s.cstate = 0
		s.probeFired()
		s.emit("(OC1 (@None changeset))", "C1:nil")
	case <-sentinel:
		s.probe = nil
		s.taskDied()
	case <-nextBegin:
		s.beginArrived = true
		s.taskDied()
	case <-time.After(netWait):
		s.err = fmt.Errorf("compaction task reached neither dkv.compact.swap nor dkv.compact.end")
		ok = false
	}
	s.ffs.armed.Store(false)
	return ok
}

func (s *sched) c2() bool {
	if s.cstate == 3 && s.err == nil {
		sentinel, nextBegin := s.taskEndWatch()
		s.releaseGate()
		select {
		case <-s.arrive["dkv.compact.swap"]:
			s.cstate = 2
		case <-sentinel: // the held Save (or what follows it) failed: the task is over, its change set is never applied
			s.probe = nil
			s.acts[s.c1Idx] = "OC1F"
			s.cstate = 0
			s.probeFired()
			s.failedTasks++
			s.emit("OTaskErr", "compaction task ended with an error after its held table Save")
			return false
		case <-nextBegin:
			s.beginArrived = true
			s.acts[s.c1Idx] = "OC1F"
			s.cstate = 0
			s.probeFired()
			s.failedTasks++
			s.emit("OTaskErr", "compaction task ended with an error after its held table Save")
			return false
		case <-time.After(netWait):
			s.err = fmt.Errorf("compaction task did not reach dkv.compact.swap after its held table Save was released")
			return false
		}
	}
	if s.cstate != 2 || s.err != nil {
		return false
	}
	// the level list is read while the task is parked in front of the locked swap (the flush task is parked or idle too)
	// and again after the task arrived at its next hook point: both reads are ordered with the swap by channel handoffs
	before := s.db.VerifC07Tables()
	s.rel("dkv.compact.swap")
	if !s.wait("dkv.compact.iter") {
		return false
	}
	s.cstate = 1
	s.tags["compaction_applied"] = true
	// the change set that was applied = the difference of the level list across the locked swap
	after := s.db.VerifC07Tables()
	was, is := map[*sst.Table]bool{}, map[*sst.Table]bool{}
	for _, l := range before {
		for _, t := range l {
			was[t] = true
		}
	}
	for _, l := range after {
		for _, t := range l {
			is[t] = true
		}
	}
	level := 1
	var addE, remE [][]ent
	for i, l := range after {
		for _, t := range l {
			if !was[t] {
				level = i
				addE = append(addE, tableEntries(t))
			}
		}
	}
	for _, l := range before {
		for _, t := range l {
			if !is[t] {
				remE = append(remE, tableEntries(t))
			}
		}
	}
	if s.c1Idx >= 0 && s.c1Idx < len(s.acts) {
		s.acts[s.c1Idx] = "(OC1 " + coqCS(level, addE, remE) + ")"
	}
	s.emit("OC2", "C2")
	return true
}

func (s *sched) runCompactionTask() {
	steps := 0
	if s.cstate == 2 || s.cstate == 3 {
		s.c2()
	}
	for s.err == nil {
		if !s.c1(nil) {
			return
		}
		if s.cstate == 0 {
			return
		}
		s.c2()
		steps++
		if steps > 300 {
			s.err = fmt.Errorf("compaction task did not reach a fixed point within 300 steps")
		}
	}
}

func (s *sched) bg(a string) bool {
	raw := a
	a, fault := parseFault(a)
	switch a {
	case "F1":
		return s.f1(raw == "F1g")
	case "F2":
		return s.f2()
	case "C1":
		if raw == "C1g" {
			ok := s.c1g()
			if ok && s.fstate == 3 {
				s.tags["compaction_wrote_while_flush_save_held"] = true
			}
			return ok
		}
		ok := s.c1(fault)
		if ok && s.fstate == 3 {
			s.tags["compaction_wrote_while_flush_save_held"] = true
		}
		return ok
	case "C2":
		return s.c2()
	}
	return false
}

func (s *sched) write(k, v []byte, del bool) {
	// a write may rotate the memtable and Enqueue a flush task, which blocks the caller when the queue already holds its
	// limit of functions (read from the code under test): never call it with that many tasks pending - run flush
	// half-steps first, recorded as ordinary steps
	for s.flushPending >= max(1, s.flushLimit-1) && s.err == nil {
		if s.fstate != 0 {
			s.f2()
		} else {
			s.f1(false)
		}
	}
	if s.err != nil {
		return
	}
	before := s.db.VerifC07MemtableCount()
	if del {
		if s.flushedKeys[string(k)] {
			s.tags["delete_after_flush"] = true
		}
		s.db.Delete(k)
	} else {
		for _, sk := range s.sealedKeys {
			if sk[string(k)] {
				s.tags["overwrite_while_older_sealed"] = true
			}
		}
		s.db.Put(k, v)
	}
	s.activeKeys[string(k)] = true
	rot := s.db.VerifC07MemtableCount() > before
	if rot {
		s.flushPending++
		s.sealedKeys = append(s.sealedKeys, s.activeKeys)
		s.activeKeys = map[string]bool{}
	}
	if del {
		s.emit(fmt.Sprintf("(ODel %s %s)", hx.CoqBytes(k), hx.CoqBool(rot)), fmt.Sprintf("del %q rot=%v", k, rot))
	} else {
		s.emit(fmt.Sprintf("(OPut %s %s %s)", hx.CoqBytes(k), hx.CoqBytes(v), hx.CoqBool(rot)), fmt.Sprintf("put %q=%q rot=%v", k, v, rot))
	}
}

type readRes struct {
	term, human string
	err         error
	readErr     string // the API call returned an error: an observed outcome (specification violation), not an engine failure
}

func (s *sched) read(scan bool, k []byte, bgs []string) {
	if s.err != nil {
		return
	}
	hook := "dkv.get.between"
	if scan {
		hook = "dkv.scan.between"
	}
	// regime tags at the start of the read
	sealed := s.db.VerifC07MemtableCount() - 1
	counts := s.db.VerifC07TableCounts()
	ntab := 0
	for i, c := range counts {
		ntab += c
		if i >= 1 && c >= 2 {
			s.tags["read_with_multi_table_level"] = true
		}
	}
	if sealed >= 1 {
		s.tags["read_with_sealed_memtable"] = true
	}
	if sealed >= 2 {
		s.tags["read_with_2+_sealed"] = true
	}
	if len(counts) > 0 && counts[0] >= 2 {
		s.tags["read_with_2+_L0"] = true
	}
	if ntab > 0 {
		s.readWithTbl = true
	}
	done := make(chan readRes, 1)
	db := s.db
	go func() {
		if scan {
			var serr error
			var out []kvPair
			for e := range db.ScanPrefix(k, &serr) {
				out = append(out, kvPair{bytes.Clone(e.Key()), bytes.Clone(e.Value())})
			}
			if serr != nil && !errors.Is(serr, io.EOF) {
				done <- readRes{term: "(OScan2 " + coqKVs(nil) + ")", human: "scan2 ERROR", readErr: fmt.Sprintf("ScanPrefix error: %v", serr)}
				return
			}
			done <- readRes{term: "(OScan2 " + coqKVs(out) + ")", human: "scan2 " + strings.Join(jsonKVs(out), ",")}
			return
		}
		e, err := db.Get(k)
		t, h, err2 := coqGetRes(e, err)
		if err2 != nil {
			done <- readRes{term: "(OGet2 GAbsent)", human: "get2 ERROR", readErr: fmt.Sprintf("Get error: %v", err2)}
			return
		}
		done <- readRes{term: "(OGet2 " + t + ")", human: "get2 " + h}
	}()
	var res readRes
	parked := false
	select {
	case <-s.arrive[hook]:
		parked = true
	case res = <-done:
	case <-time.After(netWait):
		s.err = fmt.Errorf("read neither finished nor parked")
		return
	}
	if scan {
		s.emit("(OScan1 "+hx.CoqBytes(k)+")", fmt.Sprintf("scan1 %q", k))
	} else {
		s.emit("(OGet1 "+hx.CoqBytes(k)+")", fmt.Sprintf("get1 %q", k))
	}
	for _, a := range bgs {
		if s.bg(a) && parked {
			k, _ := parseFault(a)
			s.tags["read_parked_across_"+k] = true
		}
	}
	if parked {
		s.rel(hook)
		select {
		case res = <-done:
		case <-time.After(netWait):
			s.err = fmt.Errorf("parked read did not finish")
			return
		}
	}
	if res.err != nil {
		s.err = res.err
		return
	}
	if res.readErr != "" {
		s.tags["read_returned_error"] = true
		s.emit("OReadErr", res.readErr)
	}
	s.emit(res.term, res.human)
}

func execC07(c *hx.Case) (*hx.Result, error) {
	p := c.Params
	mem, wal := pint(p, "mem", 64), pint(p, "wal", 1<<30)
	trig, maxamp, smallest, target := pint(p, "trig", 2), pint(p, "maxamp", 50), pint(p, "smallest", 4200), pint(p, "target", 120)
	if maxamp < 1 {
		maxamp = 1
	}
	if smallest < 1 {
		smallest = 1
	}
	if target < 1 {
		target = 1
	}
	if trig < 1 {
		trig = 1
	}
	verifhook.SetTuning("dkv", dkv.VerifDBTuning{MaxSizeAmplificationPercent: maxamp, SmallestLevelSize: int64(smallest), LevelSizeMultiplier: 10})
	defer verifhook.SetTuning("dkv", nil)
	s := &sched{arrive: map[string]chan struct{}{}, release: map[string]chan struct{}{}, tags: map[string]bool{},
		flushedKeys: map[string]bool{}, activeKeys: map[string]bool{}, ffs: newFaultFS()}
	for _, n := range hookNames {
		s.arrive[n] = make(chan struct{}, 1)
		s.release[n] = make(chan struct{})
	}
	db := dkv.Open(dkv.DBOptions{
		FileSystem: s.ffs, MemTableSize: uint64(mem), MaxWALSize: uint64(wal),
		TargetFileSize: uint64(target), L0TableNumCompactionTrigger: trig,
		Logger: slog.New(slog.NewTextHandler(io.Discard, nil)),
	}, nil)
	s.db = db
	s.flushLimit, s.compLimit = dkv.VerifQueueLimits()
	verifhook.Set(func(name string, args ...any) {
		if len(args) == 0 {
			return
		}
		if d, ok := args[0].(*dkv.DB); !ok || d != db {
			return
		}
		a, ok := s.arrive[name]
		if !ok {
			return
		}
		a <- struct{}{}
		<-s.release[name]
	})
	var keys [][]byte
	seen := map[string]bool{}
	for _, raw := range c.Ops {
		var o op7
		if err := json.Unmarshal(raw, &o); err != nil {
			return nil, err
		}
		if (o.Op == "put" || o.Op == "del" || o.Op == "get") && !seen[string(o.K)] {
			seen[string(o.K)] = true
			keys = append(keys, o.K)
		}
		switch o.Op {
		case "put":
			s.write(o.K, o.V, false)
		case "del":
			s.write(o.K, nil, true)
		case "get":
			s.read(false, o.K, o.Bg)
		case "scan":
			s.read(true, o.K, o.Bg)
		case "bg":
			if o.A == "F2" && s.fstate != 0 {
				// bookkeeping for the delete-after-flush tag: the oldest sealed memtables reach the level list
				n := len(s.sealedKeys) - s.flushPending
				for i := 0; i < n && i < len(s.sealedKeys); i++ {
					for k := range s.sealedKeys[i] {
						s.flushedKeys[k] = true
					}
				}
				if n > 0 && n <= len(s.sealedKeys) {
					s.sealedKeys = s.sealedKeys[n:]
				}
			}
			s.bg(o.A)
		}
		if s.err != nil {
			break
		}
	}
	// drain: run every pending background task to its end, then read everything once more
	for s.err == nil && (s.fstate != 0 || s.flushPending > 0) {
		if s.fstate != 0 {
			s.f2()
		} else {
			s.f1(false)
		}
	}
	// run every compaction task that is actually queued (found out through the probe, not predicted) to its end
	for s.err == nil {
		if s.cstate == 0 && !s.startCompTask() {
			break
		}
		s.runCompactionTask()
	}
	for _, d := range s.ffs.takeDups() {
		s.tags["table_file_name_reused"] = true
		s.emit("ODupFile", "table file "+d)
	}
	if s.err == nil {
		sort.Slice(keys, func(i, j int) bool { return bytes.Compare(keys[i], keys[j]) < 0 })
		for _, k := range keys {
			s.read(false, k, nil)
		}
		s.read(true, nil, nil)
	}
	verifhook.Set(nil)
	if s.err != nil {
		// unblock whatever is parked so that the package-global queues are free for the next case
		for _, n := range hookNames {
			close(s.release[n])
		}
		close(s.ffs.gateRelease)
		// let the goroutines of the database finish before the next case runs in this process (pacing only: the case is
		// reported as an engine error either way)
		fin := make(chan struct{})
		go func() { db.WaitOnTasks(); close(fin) }()
		select {
		case <-fin:
		case <-time.After(30 * time.Second):
		}
		return nil, s.err
	}
	if err := db.WaitOnTasks(); err != nil {
		if s.failedTasks == 0 {
			// a background task failed although no fault was injected: an observed outcome
			s.tags["background_task_error_without_fault"] = true
			s.emit("OTaskErr", fmt.Sprintf("background task failed: %v", err))
		}
		s.tags["wait_on_tasks_reports_compaction_error"] = true
	} else if s.failedTasks > 0 {
		s.tags["compaction_error_not_reported_by_wait"] = true
	}
	term := fmt.Sprintf("(C07 %d %d %d %d %d %d %s)", mem, wal, trig, maxamp, smallest, target, coqList(s.acts, "oact"))
	var tags []string
	for t := range s.tags {
		tags = append(tags, t)
	}
	sort.Strings(tags)
	counts := db.VerifC07TableCounts()
	deep := 0
	for i, c := range counts {
		if i >= 1 && c > 0 {
			deep++
		}
	}
	tags = append(tags, fmt.Sprintf("final_populated_deep_levels=%d", deep))
	return &hx.Result{Term: term, Nontrivial: s.readWithTbl && s.swaps > 0, Tags: tags, Observed: s.log}, nil
}

// ---------------------------------------------------------------- mode c18

type ent struct {
	K []byte `json:"k"`
	S uint64 `json:"s"`
	D bool   `json:"d,omitempty"`
	V []byte `json:"v,omitempty"`
}

func (e *ent) Key() []byte    { return e.K }
func (e *ent) Value() []byte  { return e.V }
func (e *ent) IsDelete() bool { return e.D }
func (e *ent) SeqNum() uint64 { return e.S }

type fault18 struct {
	T   int `json:"t"`   // index of the table (level order) whose reads fail during Compact, modulo the number of tables
	Off int `json:"off"` // reads at or beyond this file offset fail
}

type step18 struct {
	Extra [][]ent  `json:"extra,omitempty"`
	Fault *fault18 `json:"fault,omitempty"`
}

// faultFS: while armed, ReadAt of the file called failName at or beyond failFrom returns an I/O error (a storage read
// fault in the middle of a table scan).
type faultFS struct {
	storage.FileSystem
	armed    atomic.Bool
	failName string
	failFrom int64
	faults   atomic.Int64
	// Save gate: while armed, the next Save of a *.sst file parks until released (a slow upload of a table)
	gateArmed   atomic.Bool
	gateArrive  chan string
	gateRelease chan struct{}
	// every table file name must be created and saved once
	mu      sync.Mutex
	created map[string]int
	saved   map[string]int
	dups    []string
}

func newFaultFS() *faultFS {
	return &faultFS{FileSystem: storage.NewMemoryFilesystem(), gateArrive: make(chan string, 1), gateRelease: make(chan struct{}),
		created: map[string]int{}, saved: map[string]int{}}
}

func (fs *faultFS) note(m map[string]int, what, name string) {
	if !strings.HasSuffix(name, ".sst") {
		return
	}
	fs.mu.Lock()
	m[name]++
	if m[name] > 1 {
		fs.dups = append(fs.dups, what+" "+name)
	}
	fs.mu.Unlock()
}

func (fs *faultFS) takeDups() []string {
	fs.mu.Lock()
	defer fs.mu.Unlock()
	d := fs.dups
	fs.dups = nil
	return d
}

func (fs *faultFS) New(path string) storage.File {
	fs.note(fs.created, "created twice:", path)
	return &faultFile{File: fs.FileSystem.New(path), fs: fs}
}

type faultFile struct {
	storage.File
	fs *faultFS
}

func (f *faultFile) Save() error {
	if strings.HasSuffix(f.Name(), ".sst") {
		if f.fs.gateArmed.CompareAndSwap(true, false) {
			f.fs.gateArrive <- f.Name()
			<-f.fs.gateRelease
		}
		f.fs.note(f.fs.saved, "saved twice:", f.Name())
	}
	return f.File.Save()
}

func (f *faultFile) ReadAt(p []byte, off int64) (int, error) {
	if f.fs.armed.Load() && f.Name() == f.fs.failName && off >= f.fs.failFrom {
		f.fs.faults.Add(1)
		return 0, errors.New("injected read fault")
	}
	return f.File.ReadAt(p, off)
}

func coqEnt(e ent) string {
	v := e.V
	if e.D {
		v = nil
	}
	return fmt.Sprintf("(mkE %s %d %s %s)", hx.CoqBytes(e.K), e.S, hx.CoqBool(e.D), hx.CoqBytes(v))
}
func coqTable(t []ent) string {
	items := make([]string, len(t))
	for i, e := range t {
		items[i] = coqEnt(e)
	}
	return coqList(items, "entry")
}
func coqTables(ts [][]ent) string {
	items := make([]string, len(ts))
	for i, t := range ts {
		items[i] = coqTable(t)
	}
	return coqList(items, "table")
}

// latest entry per key of a chronological segment, ascending by key
func dedup(seg []ent) []ent {
	m := map[string]ent{}
	for _, e := range seg {
		m[string(e.K)] = e
	}
	out := make([]ent, 0, len(m))
	for _, e := range m {
		out = append(out, e)
	}
	sort.Slice(out, func(i, j int) bool { return bytes.Compare(out[i].K, out[j].K) < 0 })
	return out
}

func genC18(r *hx.Rand, idx int) *hx.Case {
	keys := pickKeys(r)
	nlev := r.Range(2, 6)
	h := r.Range(6, 40)
	hist := make([]ent, h)
	for i := range hist {
		hist[i] = ent{K: hx.Pick(r, keys), S: uint64(i + 1)}
		if r.Chance(1, 5) {
			hist[i].D = true
		} else {
			hist[i].V = randVal(r)
		}
	}
	nl0 := r.Range(0, 4)
	nseg := nlev - 1 + nl0
	cuts := make([]int, nseg-1)
	for i := range cuts {
		cuts[i] = r.Intn(h + 1)
	}
	if r.Chance(1, 2) { // favour layouts whose middle levels are populated: spread the cuts
		for i := range cuts {
			cuts[i] = (i + 1) * h / nseg
		}
	}
	sort.Ints(cuts)
	segs := make([][]ent, nseg)
	prev := 0
	for i := 0; i < nseg; i++ {
		end := h
		if i < nseg-1 {
			end = cuts[i]
		}
		segs[i] = hist[prev:end]
		prev = end
	}
	levels := make([][][]ent, nlev)
	for i := range levels {
		levels[i] = [][]ent{}
	}
	// oldest segments go to the deepest levels
	for li := nlev - 1; li >= 1; li-- {
		d := dedup(segs[nlev-1-li])
		if len(d) == 0 {
			continue
		}
		parts := r.Range(1, 3)
		if parts > len(d) {
			parts = len(d)
		}
		for pi := 0; pi < parts; pi++ {
			a, b := pi*len(d)/parts, (pi+1)*len(d)/parts
			if b > a {
				levels[li] = append(levels[li], d[a:b])
			}
		}
	}
	for i := nlev - 1; i < nseg; i++ {
		if d := dedup(segs[i]); len(d) > 0 {
			levels[0] = append(levels[0], d)
		}
	}
	seq := uint64(h)
	nsteps := r.Range(0, 3)
	if r.Chance(1, 3) {
		nsteps = r.Range(1, 4)
	}
	var ops []json.RawMessage
	for i := 0; i < nsteps; i++ {
		var st step18
		for j, n := 0, r.Range(0, 2); j < n; j++ {
			var seg []ent
			for w, m := 0, r.Range(1, 4); w < m; w++ {
				seq++
				e := ent{K: hx.Pick(r, keys), S: seq}
				if r.Chance(1, 4) {
					e.D = true
				} else {
					e.V = randVal(r)
				}
				seg = append(seg, e)
			}
			st.Extra = append(st.Extra, dedup(seg))
		}
		if r.Chance(2, 5) {
			st.Fault = &fault18{T: r.Intn(12), Off: r.Range(0, 90)}
		}
		ops = append(ops, hx.Op(st))
	}
	prefixes := slices.Clone(prefixPool)
	hx.Shuffle(r, prefixes)
	prefixes = prefixes[:4]
	params := map[string]any{
		"mode": "c18", "levels": levels, "keys": keys, "prefixes": prefixes,
		"trig":     r.Range(1, 4),
		"maxamp":   hx.Pick(r, []int{1, 10, 25, 50, 75, 100, 150, 200, 300, 1000}),
		"smallest": hx.Pick(r, []int{0, 1, 2000, 4200, 8300, 9000, 13000, 20000}),
		"target":   hx.Pick(r, []int{30, 60, 120, 500, 100000}),
	}
	return &hx.Case{Name: fmt.Sprintf("c18-%d", idx), Params: params, Ops: ops}
}

func reparse(v any, out any) error {
	b, err := json.Marshal(v)
	if err != nil {
		return err
	}
	return json.Unmarshal(b, out)
}

func readsOf(ll *sst.LevelList, keys, prefixes [][]byte) (string, []string, error) {
	gets := make([]string, len(keys))
	var human []string
	for i, k := range keys {
		e, err := ll.Get(k)
		t, h, err2 := coqGetRes(e, err)
		if err2 != nil {
			return "", nil, fmt.Errorf("LevelList.Get(%q): %v", k, err2)
		}
		gets[i] = t
		human = append(human, fmt.Sprintf("%q:%s", k, h))
	}
	scans := make([]string, len(prefixes))
	for i, p := range prefixes {
		var serr error
		var out []kvPair
		for e := range ll.ScanPrefix(p, &serr) {
			out = append(out, kvPair{bytes.Clone(e.Key()), bytes.Clone(e.Value())})
		}
		if serr != nil && !errors.Is(serr, io.EOF) {
			return "", nil, fmt.Errorf("LevelList.ScanPrefix(%q): %v", p, serr)
		}
		scans[i] = coqKVs(out)
		human = append(human, fmt.Sprintf("scan %q:[%s]", p, strings.Join(jsonKVs(out), ",")))
	}
	return "(" + coqList(gets, "getres") + ", " + coqList(scans, "list (bytes * bytes)") + ")", human, nil
}

func rangesOf(ll *sst.LevelList) (string, []string) {
	doc := ll.Document()
	lv := make([]string, len(doc))
	var human []string
	for i, l := range doc {
		ts := make([]string, len(l))
		var hs []string
		for j, t := range l {
			ts[j] = hx.CoqPair(hx.CoqBytes([]byte(t.StartKey)), hx.CoqBytes([]byte(t.EndKey)))
			hs = append(hs, fmt.Sprintf("%q..%q", t.StartKey, t.EndKey))
		}
		lv[i] = coqList(ts, "bytes * bytes")
		human = append(human, fmt.Sprintf("L%d[%s]", i, strings.Join(hs, " ")))
	}
	return coqList(lv, "list (bytes * bytes)"), human
}

// tableEntries reads all entries of a table (errors are ignored: whatever could be read is reported; a table that cannot
// be read shows up in the reads of the case).
func tableEntries(t *sst.Table) []ent {
	var out []ent
	var serr error
	for e := range t.ScanPrefix(nil, &serr) {
		out = append(out, ent{K: bytes.Clone(e.Key()), S: e.SeqNum(), D: e.IsDelete(), V: bytes.Clone(e.Value())})
	}
	return out
}

func coqCS(level int, adds, rems [][]ent) string {
	return fmt.Sprintf("(Some (mkCS %s %s %s))", hx.CoqNat(level), coqTables(adds), coqTables(rems))
}

func writeTable(tw *sst.TableWriter, t []ent) (*sst.Table, error) {
	return tw.Write(func(yield func(kv.Entry) bool) {
		for i := range t {
			e := t[i]
			if e.D {
				e.V = nil
			}
			if !yield(&e) {
				return
			}
		}
	})
}

func execC18(c *hx.Case) (*hx.Result, error) {
	p := c.Params
	var levels [][][]ent
	var keys, prefixes [][]byte
	if err := reparse(p["levels"], &levels); err != nil {
		return nil, err
	}
	if err := reparse(p["keys"], &keys); err != nil {
		return nil, err
	}
	if err := reparse(p["prefixes"], &prefixes); err != nil {
		return nil, err
	}
	if len(levels) < 2 {
		return nil, fmt.Errorf("a c18 layout needs at least two levels")
	}
	trig, maxamp, smallest, target := pint(p, "trig", 2), pint(p, "maxamp", 50), pint(p, "smallest", 4200), pint(p, "target", 120)
	if target < 1 {
		target = 1
	}
	ffs := newFaultFS()
	tw := sst.NewTableWriter(ffs, 0)
	tabs := make([][]*sst.Table, len(levels))
	populated := 0
	tags := map[string]bool{}
	for i, l := range levels {
		for _, t := range l {
			tb, err := writeTable(tw, t)
			if err != nil {
				return nil, err
			}
			tabs[i] = append(tabs[i], tb)
		}
		if len(l) > 0 {
			populated++
		}
		if i >= 1 && len(l) >= 2 {
			tags["multi_table_level"] = true
		}
		if i >= 1 && i < len(levels)-1 && len(l) > 0 {
			tags["middle_level_populated"] = true
		}
	}
	ll := sst.NewLevelListOfTables(tabs)
	comp := &sst.Compactor{TableWriter: tw, L0RunNumCompactionTrigger: trig, MaxSizeAmplificationPercent: maxamp,
		SmallestLevelSize: int64(smallest), LevelSizeMultiplier: 10, TargetTableSize: int64(target)}
	pre, preH, err := readsOf(ll, keys, prefixes)
	if err != nil {
		return nil, err
	}
	log := []string{"pre: " + strings.Join(preH, " ")}
	var steps []string
	nonnil := 0
	doStep := func(extra [][]ent, fault *fault18) (bool, error) {
		ffs.faults.Store(0)
		if fault != nil {
			var names []string
			for _, l := range ll.Document() {
				for _, t := range l {
					names = append(names, path.Base(t.URI))
				}
			}
			if len(names) > 0 {
				ffs.failName = names[((fault.T%len(names))+len(names))%len(names)]
				ffs.failFrom = int64(fault.Off)
				ffs.faults.Store(0)
				ffs.armed.Store(true)
				tags["fault_armed"] = true
			}
		}
		cs, cerr := comp.Compact(ll)
		ffs.armed.Store(false)
		hit := fault != nil && ffs.faults.Load() > 0
		if cerr != nil && !hit {
			return false, fmt.Errorf("Compact: %v", cerr)
		}
		failed := cerr != nil
		if failed {
			cs = nil
			tags["fault_hit_compact_error"] = true
		} else if hit {
			tags["fault_hit_but_change_set"] = true
		}
		if len(extra) > 0 {
			ecs := &sst.ChangeSet{}
			for _, t := range extra {
				tb, err := writeTable(tw, t)
				if err != nil {
					return false, err
				}
				ecs.AddTables(0, tb)
			}
			ll = ll.NewWithChangeSet(ecs)
			if cs != nil {
				tags["l0_arrived_before_apply"] = true
			}
		}
		ocs := "(@None changeset)"
		if cs != nil {
			adds, rems := cs.VerifParts()
			level := 0
			var addE, remE [][]ent
			for _, a := range adds {
				level = a.LevelNum
				addE = append(addE, tableEntries(a.Table))
			}
			if level < 0 {
				level += len(levels)
			}
			for _, t := range rems {
				remE = append(remE, tableEntries(t))
			}
			ocs = coqCS(level, addE, remE)
			ll = ll.NewWithChangeSet(cs)
			nonnil++
		}
		rg, rgH := rangesOf(ll)
		post, postH, err := readsOf(ll, keys, prefixes)
		if err != nil {
			return false, err
		}
		steps = append(steps, fmt.Sprintf("(CStep %s %s %s %s %s)", ocs, hx.CoqBool(failed), coqTables(extra), rg, post))
		log = append(log, fmt.Sprintf("step cs=%v failed=%v faultreads=%d extra=%d %s | %s", cs != nil, failed, ffs.faults.Load(), len(extra), strings.Join(rgH, " "), strings.Join(postH, " ")))
		return cs != nil || failed, nil
	}
	last := true
	for _, raw := range c.Ops {
		var st step18
		if err := json.Unmarshal(raw, &st); err != nil {
			return nil, err
		}
		if last, err = doStep(st.Extra, st.Fault); err != nil {
			return nil, err
		}
	}
	for i := 0; last || i == 0; i++ {
		if last, err = doStep(nil, nil); err != nil {
			return nil, err
		}
		if i > 60 {
			return nil, fmt.Errorf("Compact did not reach a fixed point within 60 further steps")
		}
	}
	lv := make([]string, len(levels))
	for i, l := range levels {
		lv[i] = coqTables(l)
	}
	kb := make([]string, len(keys))
	for i, k := range keys {
		kb[i] = hx.CoqBytes(k)
	}
	pb := make([]string, len(prefixes))
	for i, k := range prefixes {
		pb[i] = hx.CoqBytes(k)
	}
	term := fmt.Sprintf("(C18 %d %d %d %d %s %s %s %s %s)", trig, maxamp, smallest, target,
		coqList(lv, "list table"), coqList(kb, "bytes"), coqList(pb, "bytes"), pre, coqList(steps, "cstep"))
	var tl []string
	for t := range tags {
		tl = append(tl, t)
	}
	sort.Strings(tl)
	tl = append(tl, fmt.Sprintf("nonnil_steps=%d", min(nonnil, 6)), fmt.Sprintf("populated_levels=%d", populated))
	return &hx.Result{Term: term, Nontrivial: nonnil > 0 && populated >= 2, Tags: tl, Observed: log}, nil
}

// ---------------------------------------------------------------- engine interface

func (eng) Generate(mode, tier string, r *hx.Rand) []*hx.Case {
	var cs []*hx.Case
	// hx.NewRand(seed) and hx.NewRand(seed+1) produce the same stream shifted by one draw (the splitmix state is
	// seed*gamma + c); re-seed from one mixed output so that consecutive seeds give unrelated case sets.
	r = hx.NewRand(r.U64() ^ 0xC07C18)
	switch mode {
	case "c07":
		n := 300
		if tier == "thorough" {
			n = 3000
		}
		for i := 0; i < n; i++ {
			cs = append(cs, genC07(r.Fork(), i))
		}
	case "c18":
		n := 400
		if tier == "thorough" {
			n = 4000
		}
		for i := 0; i < n; i++ {
			cs = append(cs, genC18(r.Fork(), i))
		}
	}
	return cs
}

func (eng) Execute(mode string, c *hx.Case) (*hx.Result, error) {
	switch mode {
	case "c07":
		return execC07(c)
	case "c18":
		return execC18(c)
	}
	return nil, fmt.Errorf("unknown mode %q", mode)
}
