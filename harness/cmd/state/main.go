// engine state (property C03): a REAL operator.Operator in-process over a real dkv.DB whose sizes are tuned tiny
// (rotation, flush and compaction happen underneath), driven through HandleEvent with keyed events for adversarial
// subject keys. A scripted reference handler returns the mutations the case prescribes and records every KeyStates
// it is given. Observables: per handler call the event keys and the KeyStates (sorted by subject key; namespaces and
// entries in the order given).
package main

import (
	"bytes"
	"context"
	"encoding/json"
	"errors"
	"fmt"
	"io"
	"log/slog"
	"os"
	"path/filepath"
	"runtime"
	"runtime/pprof"
	"sort"
	"strconv"
	"strings"
	"sync"
	"sync/atomic"
	"time"

	"google.golang.org/protobuf/types/known/timestamppb"
	"reduction.dev/reduction-protocol/handlerpb"
	"reduction.dev/reduction/batching"
	"reduction.dev/reduction/dkv"
	"reduction.dev/reduction/dkv/storage"
	"reduction.dev/reduction/proto"
	"reduction.dev/reduction/proto/jobpb"
	"reduction.dev/reduction/proto/snapshotpb"
	"reduction.dev/reduction/proto/workerpb"
	"reduction.dev/reduction/util/verifhook"
	"reduction.dev/reduction/workers/operator"
	"verifharness/hx"
)

type eng struct{}

func (eng) Name() string { return "state" }
func (eng) CoqRequire(mode string) string {
	return "From Coq Require Import Uint63.\nFrom RV Require Import Model.StateStore Corr.Check_state."
}
func (eng) CoqCaseType(mode string) string { return "Check_state.case" }
func (eng) CoqRun(mode string) string      { return "Check_state.run" }
func (eng) Rule(mode string) string {
	return "A case is a history of ops (keyed event with the key results the scripted handler returns for it | batch-timer flush | wait for DKV background tasks | hold / release the memtable flushes | checkpoint barrier | redeploy from a restorable checkpoint) against one real Operator (key-group count 1/2/7/256/65535, batch size 1..5, DKV memtable 96..2048 bytes, table target 128..4096 bytes, L0 trigger 2, smallest level 256..2048 bytes). Subject keys come from adversarial families (empty, nested prefixes, 0x00 / 0xff runs, keys that contain another key's encoded suffix, long), namespaces include empty / prefixes of each other / length-vs-lexicographic order inversions / 255 bytes, entry keys empty / prefixes, values empty..400 bytes (2.5KB thorough). Every fourth case redeploys, in turn: at random points from the latest or the previous checkpoint | from a second checkpoint taken right after one that was taken while a memtable flush was parked (hook points dkv.flush.begin/swap gated) | from an older retained checkpoint after further flushes and a further checkpoint. An eighth of the events make the sink write of the batch they complete fail (after the handler returned its mutations); later events of the same key must be shown those mutations. About a fifth of the events of cases without redeploy carry a storage read fault (ReadAt of table files fails from a generated offset / from the n-th read on) armed while the state for the batch they complete is read: the batch must either fail with the error (no handler call, nothing applied) or hand over the complete state. Non-trivial: the handler was called at least twice, at least one delete or overwrite of a live entry happened and some later call was handed state for that key; distinct by hash of the case."
}

// ---------- case format ----------

type mut struct {
	Put bool   `json:"p"`
	E   []byte `json:"e"`
	V   []byte `json:"v,omitempty"`
}
type nsm struct {
	Ns []byte `json:"ns"`
	Ms []mut  `json:"ms"`
}
type kres struct {
	Key    []byte  `json:"key"`
	Timers []int64 `json:"timers,omitempty"` // seconds
	Muts   []nsm   `json:"muts,omitempty"`
}
type op struct {
	K   string `json:"k"` // ev | flush | wait | ckpt | restore | hold | release
	Key []byte `json:"key,omitempty"`
	Res []kres `json:"res,omitempty"`
	// restore: redeploy from the Back-th newest checkpoint that is still restorable (0 = the latest)
	Back int `json:"back,omitempty"`
	// storage read fault while the state for the batch this event completes is read (ignored if the event does not
	// fill the batch, or the case redeploys): M "off": every ReadAt of a table file at offset >= V fails;
	// M "nth": the V-th ReadAt of a table file and all later ones fail. Disarmed when the handler is entered.
	Fault *faultSpec `json:"fault,omitempty"`
	// the sink's Write fails for the batch this event completes (ignored if the event does not fill the batch): the
	// handler has been called and has returned its mutations by then
	SinkErr bool `json:"sink_err,omitempty"`
}

// failingSink is the operator's sink: every Write succeeds unless armed.
type failingSink struct {
	armed  atomic.Bool
	failed atomic.Int64
	writes atomic.Int64
}

var errSink = errors.New("injected sink write error")

func (s *failingSink) Write(b []byte) error {
	s.writes.Add(1)
	if s.armed.Load() {
		s.failed.Add(1)
		return errSink
	}
	return nil
}

type faultSpec struct {
	M string `json:"m"`
	V int64  `json:"v"`
}

// ---------- fault-injecting file system (installed through the call-site hook operator.deploy.fs) ----------

type faultCtl struct {
	armed atomic.Bool
	byOff bool
	v     int64
	reads atomic.Int64
	hits  atomic.Int64
}

// flushGate parks the DKV's memtable flush tasks (hook points dkv.flush.begin / dkv.flush.swap) while it is held, so
// that checkpoints can be taken while a flush is in flight.
type flushGate struct {
	mu     sync.Mutex
	ch     chan struct{}
	parked atomic.Int64
}

func (g *flushGate) hold() {
	g.mu.Lock()
	if g.ch == nil {
		g.ch = make(chan struct{})
	}
	g.mu.Unlock()
}
func (g *flushGate) release() {
	g.mu.Lock()
	if g.ch != nil {
		close(g.ch)
		g.ch = nil
	}
	g.mu.Unlock()
}
func (g *flushGate) held() bool {
	g.mu.Lock()
	defer g.mu.Unlock()
	return g.ch != nil
}
func (g *flushGate) pass() {
	g.mu.Lock()
	ch := g.ch
	g.mu.Unlock()
	if ch != nil {
		g.parked.Add(1)
		<-ch
	}
}

var errInjected = errors.New("injected storage read fault")

// One faultFS per deployment. [dead] is set when the deployment is replaced by a redeploy (or the case ends): the
// process it stands for is gone, so nothing it left behind deletes files any more. Table objects delete their file
// from a runtime.AddCleanup whenever the Go GC happens to collect them (known finding D11 of C08/C09); without this a
// late cleanup of the OLD database could remove a file the NEW database has meanwhile written under the same name -
// an effect of sharing one heap that no timing of GC rounds can exclude.
type faultFS struct {
	storage.FileSystem
	ctl  *faultCtl
	dead *atomic.Bool
}

func (fs *faultFS) New(path string) storage.File {
	return &faultFile{File: fs.FileSystem.New(path), ctl: fs.ctl, dead: fs.dead}
}
func (fs *faultFS) Open(path string) storage.File {
	return &faultFile{File: fs.FileSystem.Open(path), ctl: fs.ctl, dead: fs.dead}
}

type faultFile struct {
	storage.File
	ctl  *faultCtl
	dead *atomic.Bool
}

func (f *faultFile) Delete() error {
	if f.dead.Load() {
		return nil
	}
	return f.File.Delete()
}

func (f *faultFile) CreateDeleteFunc() func() error {
	del := f.File.CreateDeleteFunc()
	dead := f.dead
	return func() error {
		if dead.Load() {
			return nil
		}
		return del()
	}
}

func (f *faultFile) ReadAt(p []byte, off int64) (int, error) {
	c := f.ctl
	if c.armed.Load() && strings.HasSuffix(f.File.Name(), ".sst") {
		n := c.reads.Add(1)
		if (c.byOff && off >= c.v) || (!c.byOff && n >= c.v) {
			c.hits.Add(1)
			return 0, errInjected
		}
	}
	return f.File.ReadAt(p, off)
}

type tuning struct {
	Mem, Target, Wal uint64
	L0               int
	Smallest         int64
	Mult             int
	Amp              int
}

func paramInt(c *hx.Case, name string, def int) int {
	if v, ok := c.Params[name]; ok {
		switch x := v.(type) {
		case float64:
			return int(x)
		case int:
			return x
		}
	}
	return def
}

// ---------- generator ----------

func rep(b byte, n int) []byte { return bytes.Repeat([]byte{b}, n) }

func keyFamily(r *hx.Rand) [][]byte {
	switch r.Intn(7) {
	case 0: // nested prefixes incl. empty
		return [][]byte{{}, []byte("a"), []byte("ab"), []byte("abc"), []byte("abcd")}
	case 1: // 0x00 runs
		return [][]byte{{}, rep(0, 1), rep(0, 2), rep(0, 3), rep(0, 5)}
	case 2: // 0xff runs
		return [][]byte{rep(0xff, 1), rep(0xff, 2), rep(0xff, 3), {0xff, 0}, {0xfe}}
	case 3: // a key that continues with what would be another key's <ns-len><ns><entry> or <len> bytes
		return [][]byte{[]byte("k"), append([]byte("k"), 1, 'n', 'e'), append([]byte("k"), 0), append([]byte("k"), 0, 0, 0, 1, 'k'), {0, 0, 0, 1, 'k'}}
	case 4: // long keys sharing a long prefix
		base := r.Bytes(r.Range(257, 300))
		return [][]byte{base, append(append([]byte{}, base...), 0), base[:len(base)-1], base[:256], []byte("s")}
	case 5: // random binary
		n := r.Range(2, 5)
		ks := make([][]byte, n)
		for i := range ks {
			ks[i] = r.Bytes(r.Intn(9))
		}
		return ks
	default: // ascii words, some prefixes
		return [][]byte{[]byte("user"), []byte("user1"), []byte("user10"), []byte("use"), []byte("u")}
	}
}

func nsFamily(r *hx.Rand) [][]byte {
	switch r.Intn(5) {
	case 0: // prefixes of each other incl. empty; "b" < "ab" by length, > lexicographically
		return [][]byte{{}, []byte("a"), []byte("ab"), []byte("b"), []byte("abc")}
	case 1:
		return [][]byte{{}, {0}, {0, 0}, {0xff}, {1}}
	case 2: // the maximum a single length byte can carry
		return [][]byte{rep('n', 255), append(rep('n', 254), 'm'), []byte("n"), {}}
	case 3: // a namespace that looks like <ns><entry> of another
		return [][]byte{[]byte("ns"), []byte("nse"), []byte("n"), append([]byte("n"), 1, 's')}
	default:
		return [][]byte{[]byte("count"), []byte("sum"), []byte("list")}
	}
}

func entryFamily(r *hx.Rand) [][]byte {
	switch r.Intn(4) {
	case 0:
		return [][]byte{{}, []byte("e"), []byte("e1"), []byte("e12"), []byte("f")}
	case 1:
		return [][]byte{{}, {0}, {0, 0}, {0xff}, {0xff, 0xff}}
	case 2: // entry keys that continue like a namespace boundary
		return [][]byte{[]byte("s"), []byte("se"), {1, 's'}, {2, 's', 'e'}, []byte("b")}
	default:
		n := r.Range(3, 8)
		es := make([][]byte, n)
		for i := range es {
			es[i] = []byte(fmt.Sprintf("%03d", i))
		}
		return es
	}
}

func genValue(r *hx.Rand, big int) []byte {
	switch r.Intn(10) {
	case 0, 1:
		return []byte{}
	case 2, 3, 4:
		return r.Bytes(r.Range(1, 8))
	case 5, 6, 7:
		return r.Bytes(r.Range(20, 90))
	case 8:
		return r.Bytes(r.Range(100, 300))
	default:
		return r.Bytes(r.Range(150, big))
	}
}

type liveKey struct{ k, ns, e string }

func genCase(r *hx.Rand, idx int, tier string) *hx.Case {
	// every deploy scans the DKV once per owned key group (NewTimerStore), so large counts are kept rare
	restore := idx%4 == 3 // every fourth case redeploys; the three redeploy regimes take turns
	counts := []int{1, 1, 1, 2, 7, 7, 256, 256, 65535}
	if restore {
		counts = []int{1, 1, 2, 7, 7, 200}
	}
	count := hx.Pick(r, counts)
	maxSize := r.Range(1, 5)
	tun := tuning{
		Mem:      uint64(hx.Pick(r, []int{96, 160, 256, 512, 2048})),
		Target:   uint64(hx.Pick(r, []int{128, 256, 1024, 4096})),
		L0:       2,
		Smallest: int64(hx.Pick(r, []int{256, 512, 2048})),
		Mult:     hx.Pick(r, []int{2, 3, 10}),
		Amp:      hx.Pick(r, []int{25, 50, 100}),
	}
	if r.Chance(1, 4) {
		tun.Wal = uint64(hx.Pick(r, []int{200, 600}))
	}
	keys := keyFamily(r)
	nss := nsFamily(r)
	ents := entryFamily(r)
	nOps := r.Range(8, 40)
	big := 400
	if tier == "thorough" {
		nOps = r.Range(10, 90)
		big = 2500
	}
	pattern := -1
	if restore {
		pattern = (idx / 4) % 3
		if pattern == 0 && tun.Mem < 512 {
			tun.Mem = uint64(hx.Pick(r, []int{512, 768, 2048})) // few enough rotations for the flush to stay parked
		}
	}
	if restore && nOps > 28 {
		nOps = 28
	}
	live := map[liveKey]bool{}
	var liveList []liveKey
	var ops []json.RawMessage
	hasCkpt := false
	for i := 0; i < nOps; i++ {
		x := r.Intn(100)
		switch {
		case x < 6:
			ops = append(ops, hx.Op(op{K: "flush"}))
			continue
		case x < 14:
			ops = append(ops, hx.Op(op{K: "wait"}))
			continue
		case x < 20 && restore:
			ops = append(ops, hx.Op(op{K: "ckpt"}))
			hasCkpt = true
			continue
		case x < 25 && restore && hasCkpt:
			back := 0
			if r.Chance(1, 4) {
				back = 1
			}
			ops = append(ops, hx.Op(op{K: "restore", Back: back}))
			// the generator's idea of what is live is only a heuristic; keep it
			continue
		}
		key := hx.Pick(r, keys)
		o := op{K: "ev", Key: key}
		if r.Chance(1, 8) {
			o.SinkErr = true
		}
		if !restore && !o.SinkErr && r.Chance(1, 5) {
			if r.Bool() {
				o.Fault = &faultSpec{M: "off", V: int64(hx.Pick(r, []int{0, 40, 120, 250, 400, 600, 900, 1400, 2500}) + r.Intn(60))}
			} else {
				o.Fault = &faultSpec{M: "nth", V: int64(r.Range(1, 60))}
			}
		}
		nres := 1
		if r.Chance(1, 8) {
			nres = 0
		} else if r.Chance(1, 6) {
			nres = 2
		}
		for j := 0; j < nres; j++ {
			rk := key
			if r.Chance(1, 7) {
				rk = hx.Pick(r, keys) // a result for another key than the event's
			}
			kr := kres{Key: rk}
			if r.Chance(1, 6) {
				kr.Timers = append(kr.Timers, int64(r.Range(1, 5000)))
			}
			nns := r.Range(1, 3)
			for a := 0; a < nns; a++ {
				ns := hx.Pick(r, nss)
				m := nsm{Ns: ns}
				nm := r.Range(1, 4)
				for b := 0; b < nm; b++ {
					// delete / overwrite something live with good probability
					if len(liveList) > 0 && r.Chance(2, 5) {
						lk := hx.Pick(r, liveList)
						if lk.k == string(rk) {
							if len(m.Ms) > 0 && string(m.Ns) != lk.ns {
								kr.Muts = append(kr.Muts, m)
								m = nsm{Ns: []byte(lk.ns)}
							} else {
								m.Ns = []byte(lk.ns)
							}
							if r.Chance(3, 5) {
								m.Ms = append(m.Ms, mut{Put: false, E: []byte(lk.e)})
								delete(live, lk)
							} else {
								m.Ms = append(m.Ms, mut{Put: true, E: []byte(lk.e), V: genValue(r, big)})
							}
							continue
						}
					}
					e := hx.Pick(r, ents)
					if r.Chance(1, 6) {
						m.Ms = append(m.Ms, mut{Put: false, E: e})
						delete(live, liveKey{string(rk), string(m.Ns), string(e)})
					} else {
						m.Ms = append(m.Ms, mut{Put: true, E: e, V: genValue(r, big)})
						lk := liveKey{string(rk), string(m.Ns), string(e)}
						if !live[lk] {
							live[lk] = true
							liveList = append(liveList, lk)
						}
					}
				}
				kr.Muts = append(kr.Muts, m)
			}
			o.Res = append(o.Res, kr)
		}
		ops = append(ops, hx.Op(o))
	}
	if restore {
		// two targeted regimes on top of the random checkpoints / redeploys
		mkEv := func() json.RawMessage {
			key := hx.Pick(r, keys)
			kr := kres{Key: key}
			n := r.Range(1, 3)
			for a := 0; a < n; a++ {
				m := nsm{Ns: hx.Pick(r, nss)}
				for b := r.Range(1, 3); b > 0; b-- {
					if len(liveList) > 0 && r.Chance(1, 2) {
						lk := hx.Pick(r, liveList)
						if lk.k == string(key) {
							m.Ns = []byte(lk.ns)
							if r.Bool() {
								m.Ms = append(m.Ms, mut{Put: false, E: []byte(lk.e)})
							} else {
								m.Ms = append(m.Ms, mut{Put: true, E: []byte(lk.e), V: genValue(r, big)})
							}
							continue
						}
					}
					e := hx.Pick(r, ents)
					m.Ms = append(m.Ms, mut{Put: true, E: e, V: genValue(r, big)})
					lk := liveKey{string(key), string(m.Ns), string(e)}
					if !live[lk] {
						live[lk] = true
						liveList = append(liveList, lk)
					}
				}
				kr.Muts = append(kr.Muts, m)
			}
			return hx.Op(op{K: "ev", Key: key, Res: []kres{kr}})
		}
		evs := func(lo, hi int) {
			for n := r.Range(lo, hi); n > 0; n-- {
				ops = append(ops, mkEv())
			}
		}
		switch pattern {
		case 0:
			// a checkpoint while a memtable flush is parked, the flush completes, a second checkpoint with no or few
			// events in between, redeploy from the second
			ops = append(ops, hx.Op(op{K: "hold"}))
			{ // one value larger than the memtable: it is rotated at once and its flush parks
				key := hx.Pick(r, keys)
				ns, e := hx.Pick(r, nss), hx.Pick(r, ents)
				ops = append(ops, hx.Op(op{K: "ev", Key: key, Res: []kres{{Key: key, Muts: []nsm{{Ns: ns, Ms: []mut{{Put: true, E: e, V: r.Bytes(int(tun.Mem) + r.Range(1, 40))}}}}}}}))
				lk := liveKey{string(key), string(ns), string(e)}
				if !live[lk] {
					live[lk] = true
					liveList = append(liveList, lk)
				}
			}
			evs(2, 5)
			ops = append(ops, hx.Op(op{K: "ckpt"}), hx.Op(op{K: "release"}))
			evs(0, 1)
			ops = append(ops, hx.Op(op{K: "ckpt"}), hx.Op(op{K: "restore"}))
			evs(2, 4)
		case 1:
			// redeploy from an older, still retained checkpoint after further flushes and a further checkpoint
			ops = append(ops, hx.Op(op{K: "ckpt"}))
			evs(3, 8)
			ops = append(ops, hx.Op(op{K: "wait"}))
			evs(0, 2)
			ops = append(ops, hx.Op(op{K: "ckpt"}), hx.Op(op{K: "restore", Back: 1}))
			evs(2, 4)
		}
	}
	return &hx.Case{
		Name: fmt.Sprintf("gen-%d", idx),
		Params: map[string]any{"mode": "c03", "count": count, "max_size": maxSize, "mem": tun.Mem, "target": tun.Target, "wal": tun.Wal,
			"l0": tun.L0, "smallest": tun.Smallest, "mult": tun.Mult, "amp": tun.Amp},
		Ops: ops,
	}
}

func (eng) Generate(mode, tier string, r *hx.Rand) []*hx.Case {
	n := 120
	if tier == "thorough" {
		n = 800
	}
	cs := make([]*hx.Case, 0, n)
	for i := 0; i < n; i++ {
		cs = append(cs, genCase(r.Fork(), i, tier))
	}
	return cs
}

// ---------- execution ----------

type fakeJob struct {
	proto.UnimplementedJob
	mu    sync.Mutex
	ckpts []*snapshotpb.OperatorCheckpoint
}

func (j *fakeJob) RegisterOperator(context.Context, *jobpb.NodeIdentity) error   { return nil }
func (j *fakeJob) DeregisterOperator(context.Context, *jobpb.NodeIdentity) error { return nil }
func (j *fakeJob) OperatorCheckpointComplete(ctx context.Context, req *snapshotpb.OperatorCheckpoint) error {
	j.mu.Lock()
	j.ckpts = append(j.ckpts, req)
	j.mu.Unlock()
	return nil
}

type manualTimer struct {
	mu sync.Mutex
	do func()
}

func (t *manualTimer) Set(d time.Duration, do func()) { t.mu.Lock(); t.do = do; t.mu.Unlock() }
func (t *manualTimer) Stop()                          { t.mu.Lock(); t.do = nil; t.mu.Unlock() }
func (t *manualTimer) fire() bool {
	t.mu.Lock()
	f := t.do
	t.do = nil
	t.mu.Unlock()
	if f == nil {
		return false
	}
	f()
	return true
}

type obsNs struct {
	Ns      []byte      `json:"ns"`
	Entries [][2][]byte `json:"entries"`
}
type obsKeyState struct {
	Key []byte  `json:"key"`
	Nss []obsNs `json:"nss"`
}
type call struct {
	EvKeys [][]byte      `json:"ev_keys"`
	Ops    []int         `json:"-"`
	States []obsKeyState `json:"states"`
}

type scriptHandler struct {
	ops   []op
	calls []call
	ctl   *faultCtl
}

func (h *scriptHandler) KeyEventBatch(ctx context.Context, events [][]byte) ([][]*handlerpb.KeyedEvent, error) {
	panic("unused by operators")
}

func (h *scriptHandler) ProcessEventBatch(ctx context.Context, req *handlerpb.ProcessEventBatchRequest) (*handlerpb.ProcessEventBatchResponse, error) {
	if h.ctl != nil {
		h.ctl.armed.Store(false) // the state has been read: faults are only meant for GetState
	}
	c := call{}
	resp := &handlerpb.ProcessEventBatchResponse{}
	for _, ev := range req.Events {
		ke := ev.GetKeyedEvent()
		if ke == nil {
			return nil, fmt.Errorf("unexpected event %v", ev)
		}
		c.EvKeys = append(c.EvKeys, bytes.Clone(ke.Key))
		i, err := strconv.Atoi(string(ke.Value))
		if err != nil || i < 0 || i >= len(h.ops) {
			return nil, fmt.Errorf("bad event value %q", ke.Value)
		}
		c.Ops = append(c.Ops, i)
		for _, kr := range h.ops[i].Res {
			resp.KeyResults = append(resp.KeyResults, toPB(kr))
		}
	}
	for _, ks := range req.KeyStates {
		o := obsKeyState{Key: bytes.Clone(ks.Key)}
		for _, ns := range ks.StateEntryNamespaces {
			on := obsNs{Ns: []byte(ns.Namespace)}
			for _, e := range ns.Entries {
				on.Entries = append(on.Entries, [2][]byte{bytes.Clone(e.Key), bytes.Clone(e.Value)})
			}
			o.Nss = append(o.Nss, on)
		}
		c.States = append(c.States, o)
	}
	// one sink request per batch, so that the sink is written on every batch
	resp.SinkRequests = append(resp.SinkRequests, &handlerpb.SinkRequest{Value: []byte("out")})
	// Go map order: sort by subject key (stable: equal keys would be a violation the check sees as a duplicate)
	sort.SliceStable(c.States, func(a, b int) bool { return bytes.Compare(c.States[a].Key, c.States[b].Key) < 0 })
	h.calls = append(h.calls, c)
	return resp, nil
}

func toPB(kr kres) *handlerpb.KeyResult {
	out := &handlerpb.KeyResult{Key: bytes.Clone(kr.Key)}
	for _, t := range kr.Timers {
		out.NewTimers = append(out.NewTimers, timestamppb.New(time.Unix(t, 0)))
	}
	for _, m := range kr.Muts {
		pm := &handlerpb.StateMutationNamespace{Namespace: string(m.Ns)}
		for _, x := range m.Ms {
			if x.Put {
				pm.Mutations = append(pm.Mutations, &handlerpb.StateMutation{Mutation: &handlerpb.StateMutation_Put{
					Put: &handlerpb.PutMutation{Key: bytes.Clone(x.E), Value: bytes.Clone(x.V)}}})
			} else {
				pm.Mutations = append(pm.Mutations, &handlerpb.StateMutation{Mutation: &handlerpb.StateMutation_Delete{
					Delete: &handlerpb.DeleteMutation{Key: bytes.Clone(x.E)}}})
			}
		}
		out.StateMutationNamespaces = append(out.StateMutationNamespaces, pm)
	}
	return out
}

// Gallina printers

// cb prints a byte string as (B len [w0; w1; ...]%uint63): 7 bytes per word, big-endian (Corr/Check_state.v B).
func cb(b []byte) string {
	if len(b) == 0 {
		return "(B 0 (@nil int))"
	}
	var sb strings.Builder
	fmt.Fprintf(&sb, "(B %d [", len(b))
	for i := 0; i < len(b); i += 7 {
		var w uint64
		for j := i; j < i+7 && j < len(b); j++ {
			w = w<<8 | uint64(b[j])
		}
		if i > 0 {
			sb.WriteString(";")
		}
		fmt.Fprintf(&sb, "%d", w)
	}
	sb.WriteString("]%uint63)")
	return sb.String()
}
func coqMut(m mut) string {
	if m.Put {
		return "MPut " + cb(m.E) + " " + cb(m.V)
	}
	return "MDel " + cb(m.E)
}
func coqResp(rs []kres) string {
	items := make([]string, len(rs))
	for i, kr := range rs {
		ts := make([]string, len(kr.Timers))
		for j, t := range kr.Timers {
			ts[j] = hx.CoqZ(t * 1_000_000_000)
		}
		ms := make([]string, len(kr.Muts))
		for j, m := range kr.Muts {
			xs := make([]string, len(m.Ms))
			for k, x := range m.Ms {
				xs[k] = coqMut(x)
			}
			ms[j] = hx.CoqPair(cb(m.Ns), hx.CoqList(xs, "mutation"))
		}
		items[i] = fmt.Sprintf("{| kr_key := %s; kr_timers := %s; kr_muts := %s |}", cb(kr.Key), hx.CoqList(ts, "Z"), hx.CoqList(ms, "nsmuts"))
	}
	return hx.CoqList(items, "key_result")
}
func coqKeys(ks [][]byte) string {
	items := make([]string, len(ks))
	for i, k := range ks {
		items[i] = cb(k)
	}
	return hx.CoqList(items, "bytes")
}
func coqStates(sts []obsKeyState) string {
	items := make([]string, len(sts))
	for i, s := range sts {
		nss := make([]string, len(s.Nss))
		for j, n := range s.Nss {
			es := make([]string, len(n.Entries))
			for k, e := range n.Entries {
				es[k] = hx.CoqPair(cb(e[0]), cb(e[1]))
			}
			nss[j] = hx.CoqPair(cb(n.Ns), hx.CoqList(es, "entry"))
		}
		items[i] = hx.CoqPair(cb(s.Key), hx.CoqList(nss, "ns_state"))
	}
	return hx.CoqList(items, "key_state")
}

var caseSeq int

func (e eng) Execute(mode string, c *hx.Case) (*hx.Result, error) {
	t0 := time.Now()
	r, err := e.execute(mode, c)
	if os.Getenv("C03_TIME") != "" {
		fmt.Fprintf(os.Stderr, "%s %d ops %v %v\n", c.Name, len(c.Ops), time.Since(t0), c.Params)
	}
	return r, err
}

func (eng) execute(mode string, c *hx.Case) (*hx.Result, error) {
	ops := make([]op, len(c.Ops))
	needDir := false
	for i, raw := range c.Ops {
		if err := json.Unmarshal(raw, &ops[i]); err != nil {
			return nil, err
		}
		if ops[i].K == "restore" {
			needDir = true
		}
	}
	count := paramInt(c, "count", 256)
	maxSize := paramInt(c, "max_size", 1)
	verifhook.SetTuning("dkv", dkv.VerifDBTuning{
		MemTableSize:                uint64(paramInt(c, "mem", 256)),
		TargetFileSize:              uint64(paramInt(c, "target", 256)),
		MaxWALSize:                  uint64(paramInt(c, "wal", 0)),
		L0TableNumCompactionTrigger: paramInt(c, "l0", 2),
		MaxSizeAmplificationPercent: paramInt(c, "amp", 50),
		SmallestLevelSize:           int64(paramInt(c, "smallest", 512)),
		LevelSizeMultiplier:         paramInt(c, "mult", 2),
	})
	defer verifhook.SetTuning("dkv", nil)

	caseSeq++
	location := fmt.Sprintf("memory:///c03-%d", caseSeq)
	dir := ""
	if needDir {
		d, err := os.MkdirTemp(scratchRoot(), "verif-c03-")
		if err != nil {
			return nil, err
		}
		dir = d
		location = d
		defer os.RemoveAll(d)
	}

	job := &fakeJob{}
	ctl := &faultCtl{}
	sink := &failingSink{}
	gate := &flushGate{}
	var curFS *faultFS // the file system of the current deployment (set by the hook inside HandleDeploy, same goroutine)
	verifhook.Set(func(name string, args ...any) {
		switch name {
		case "operator.deploy.fs":
			if len(args) == 1 {
				if p, ok := args[0].(*storage.FileSystem); ok && *p != nil {
					curFS = &faultFS{FileSystem: *p, ctl: ctl, dead: &atomic.Bool{}}
					*p = curFS
				}
			}
		case "dkv.flush.begin", "dkv.flush.swap":
			gate.pass()
		}
	})
	defer verifhook.Set(nil)
	h := &scriptHandler{ops: ops, ctl: ctl}
	tm := &manualTimer{}
	opr := operator.NewOperator(operator.NewOperatorParams{
		ID: "op0", Host: "h", Job: job, UserHandler: h,
		EventBatching: batching.EventBatcherParams{MaxSize: maxSize, MaxDelay: time.Hour, Timer: tm},
	})
	ctx, cancel := context.WithCancel(context.Background())
	started := make(chan error, 1)
	go func() { started <- opr.Start(ctx) }()
	deploy := func(ck []*snapshotpb.OperatorCheckpoint) error {
		return opr.HandleDeploy(ctx, &workerpb.DeployOperatorRequest{
			Operators: []*jobpb.NodeIdentity{{Id: "op0", Host: "h"}}, SourceRunnerIds: []string{"sr1"},
			KeyGroupCount: int32(count), StorageLocation: location, Checkpoints: ck,
		}, sink)
	}
	if err := deploy(nil); err != nil {
		cancel()
		return nil, err
	}
	opr.VerifSync() // the event loop (and the batcher) exist from here on
	var oldDBs []*dkv.DB
	defer func() {
		// let background work end before the storage goes away, then stop the operator
		gate.release()
		if db := opr.VerifDKV(); db != nil {
			db.WaitOnTasks()
		}
		opr.Stop()
		cancel()
		<-started
		if curFS != nil {
			curFS.dead.Store(true) // late table cleanups must not touch the storage of a finished case
		}
		runtime.KeepAlive(oldDBs)
	}()

	// While flushes are parked the DKV's task queue (one running + 5 queued) fills up and a further rotation blocks
	// inside Put - real back-pressure. The harness then opens the gate itself instead of waiting for the script's
	// release: before an event when 3 or more sealed memtables are waiting, and - TIMING, harmless - when an event
	// has not returned after 5 s (one event can rotate several times). Opening the gate early only means that the
	// "checkpoint while a flush is parked" regime is not reached in this case; gate operations are not part of the
	// history the model sees, and the KeyStates do not depend on when flushes run.
	autoReleased := 0
	send := func(ev *workerpb.Event) error {
		if gate.held() && sealedMemtables(opr.VerifDKV()) >= 3 {
			autoReleased++
			gate.release()
		}
		if !gate.held() {
			return opr.HandleEvent(ctx, "sr1", ev)
		}
		done := make(chan error, 1)
		go func() { done <- opr.HandleEvent(ctx, "sr1", ev) }()
		select {
		case err := <-done:
			return err
		case <-time.After(5 * time.Second):
			autoReleased++
			gate.release()
			return <-done
		}
	}

	// expected batches by the script: full at maxSize, or flushed by timer / barrier / before a redeploy
	var steps []xstep
	var pending []int
	closeBatch := func() {
		if len(pending) > 0 {
			steps = append(steps, xstep{kind: "batch", ops: pending})
			pending = nil
		}
	}
	var nextCkpt uint64 = 1
	nFlushOps, nWait, nCkpt, nRestore := 0, 0, 0, 0
	nArmed, nFailed, nSwallowed, nSinkErr := 0, 0, 0, 0
	nHold, nCkptParked, nRestoreOlder := 0, 0, 0
	var valid []*snapshotpb.OperatorCheckpoint
	for i, o := range ops {
		switch o.K {
		case "ev":
			armed := false
			if o.Fault != nil && !needDir && !gate.held() && len(pending)+1 >= maxSize {
				// no background reader may be hit: flush and compaction are done before the fault is armed, and the
				// handler disarms it before anything is written
				if err := opr.VerifDKV().WaitOnTasks(); err != nil {
					return nil, fmt.Errorf("dkv background task: %w", err)
				}
				ctl.byOff, ctl.v = o.Fault.M == "off", o.Fault.V
				ctl.reads.Store(0)
				ctl.hits.Store(0)
				ctl.armed.Store(true)
				armed = true
				nArmed++
			}
			sinkArmed := false
			if o.SinkErr && !armed && len(pending)+1 >= maxSize {
				sink.failed.Store(0)
				sink.armed.Store(true)
				sinkArmed = true
			}
			callsBefore := len(h.calls)
			err := send(&workerpb.Event{Event: &workerpb.Event_KeyedEvent{
				KeyedEvent: &handlerpb.KeyedEvent{Key: bytes.Clone(o.Key), Value: []byte(strconv.Itoa(i))}}})
			ctl.armed.Store(false)
			sink.armed.Store(false)
			if err != nil && sinkArmed && sink.failed.Load() > 0 && len(h.calls) == callsBefore+1 {
				// the handler was called and returned its mutations; then the sink write failed and HandleEvent
				// returned that error. What the next GetState shows is for the check to judge.
				nSinkErr++
				steps = append(steps, xstep{kind: "batchE", ops: append(pending, i)})
				pending = nil
				continue
			}
			if err != nil {
				if armed && ctl.hits.Load() > 0 {
					// the batch failed with the error: no handler call, its events are gone
					nFailed++
					steps = append(steps, xstep{kind: "fail", ops: append(pending, i)})
					pending = nil
					continue
				}
				return nil, fmt.Errorf("HandleEvent op %d: %w", i, err)
			}
			if armed && ctl.hits.Load() > 0 {
				nSwallowed++ // a read failed and no error came back: the check decides whether the state is complete
			}
			pending = append(pending, i)
			if len(pending) >= maxSize {
				closeBatch()
			}
		case "flush":
			nFlushOps++
			if gate.held() {
				gate.release() // the timer path cannot be guarded against back-pressure: open the gate first
			}
			if tm.fire() {
				opr.VerifSync()
			}
			closeBatch()
		case "hold":
			nHold++
			gate.hold()
		case "release":
			gate.release()
			if err := opr.VerifDKV().WaitOnTasks(); err != nil {
				return nil, fmt.Errorf("dkv background task: %w", err)
			}
		case "wait":
			if gate.held() {
				continue // flushes are parked: waiting for them would never end
			}
			nWait++
			if err := opr.VerifDKV().WaitOnTasks(); err != nil {
				return nil, fmt.Errorf("dkv background task: %w", err)
			}
		case "ckpt":
			nCkpt++
			parkedBefore := gate.held() && gate.parked.Load() > 0
			debugDump(opr.VerifDKV(), "before ckpt (batch may be pending)")
			id := nextCkpt
			nextCkpt++
			before := len(job.ckpts)
			err := send(&workerpb.Event{Event: &workerpb.Event_CheckpointBarrier{
				CheckpointBarrier: &workerpb.CheckpointBarrier{CheckpointId: id}}})
			if err != nil {
				return nil, fmt.Errorf("checkpoint barrier op %d: %w", i, err)
			}
			if len(job.ckpts) != before+1 {
				return nil, fmt.Errorf("checkpoint %d was not reported to the job", id)
			}
			valid = append(valid, job.ckpts[len(job.ckpts)-1])
			if gate.held() {
				// TIMING, harmless: distribution tag only. A flush is parked at its begin/swap point (it may have been
				// enqueued by the batch the barrier itself flushed, so give its goroutine a moment to get there); if
				// the moment is too short the tag is missing, nothing else changes
				for w := 0; w < 30 && gate.parked.Load() == 0; w++ {
					time.Sleep(time.Millisecond)
				}
				if gate.parked.Load() > 0 {
					nCkptParked++
				}
			}
			_ = parkedBefore
			closeBatch()
			steps = append(steps, xstep{kind: "ckpt", id: id})
		case "restore":
			if len(valid) == 0 {
				continue // nothing to restore from: op is inert
			}
			nRestore++
			gate.release()
			// nothing may be pending in the batcher across the redeploy (a new process would have lost it anyway)
			if tm.fire() {
				opr.VerifSync()
			}
			closeBatch()
			old := opr.VerifDKV()
			if err := old.WaitOnTasks(); err != nil { // the old process is dead: no writer left on the storage
				return nil, fmt.Errorf("dkv background task: %w", err)
			}
			// Table objects delete their file when the Go GC collects them (known finding D11, C08/C09). A new process
			// would not share a heap with the dead one; here: keep the old database reachable until the case ends, and
			// let the cleanups of what it already dropped (compacted-away tables) run BEFORE the new database starts
			// to write files under the same names.
			oldDBs = append(oldDBs, old)
			if curFS != nil {
				curFS.dead.Store(true) // the old process is dead: whatever it left behind deletes nothing any more
			}
			settleGC()
			// Restorable: the checkpoints of the current timeline. Redeploying from checkpoint X abandons every other
			// one (the new database only knows X; it reuses the WAL and table file names of what came after X).
			back := o.Back
			if back < 0 || back >= len(valid) {
				back = len(valid) - 1
			}
			if back > 0 {
				nRestoreOlder++
			}
			ck := valid[len(valid)-1-back]
			valid = []*snapshotpb.OperatorCheckpoint{ck}
			if err := deploy([]*snapshotpb.OperatorCheckpoint{ck}); err != nil {
				return nil, fmt.Errorf("redeploy from checkpoint %d: %w", ck.CheckpointId, err)
			}
			steps = append(steps, xstep{kind: "restore", id: ck.CheckpointId})
			debugDump(opr.VerifDKV(), "after restore")
		default:
			return nil, fmt.Errorf("unknown op kind %q", o.K)
		}
	}
	// flush what is left so that every event reaches the handler
	if tm.fire() {
		opr.VerifSync()
	}
	closeBatch()

	// tags from the storage (dir only) before it is removed
	nsst := -1
	if dir != "" {
		opr.VerifDKV().WaitOnTasks()
		nsst = 0
		filepath.WalkDir(dir, func(p string, d os.DirEntry, err error) error {
			if err == nil && strings.HasSuffix(p, ".sst") {
				nsst++
			}
			return nil
		})
	}

	// assemble the Gallina case: expected batches paired with the observed handler calls in order
	var items []string
	ci := 0
	nBatches := 0
	for _, s := range steps {
		switch s.kind {
		case "batch", "batchE":
			nBatches++
			var evs [][]byte
			var resp []kres
			for _, i := range s.ops {
				evs = append(evs, ops[i].Key)
				resp = append(resp, ops[i].Res...)
			}
			var oc call
			if ci < len(h.calls) {
				oc = h.calls[ci]
			} else {
				oc = call{} // missing call: empty observation (code 2)
			}
			ci++
			ctor := "OBatch"
			if s.kind == "batchE" {
				ctor = "OBatchE"
			}
			items = append(items, fmt.Sprintf("%s %s %s %s %s", ctor, coqKeys(evs), coqResp(resp), coqKeys(oc.EvKeys), coqStates(oc.States)))
		case "fail":
			var evs [][]byte
			for _, i := range s.ops {
				evs = append(evs, ops[i].Key)
			}
			items = append(items, fmt.Sprintf("OFail %s", coqKeys(evs)))
		case "ckpt":
			items = append(items, fmt.Sprintf("OCkpt %d", s.id))
		case "restore":
			items = append(items, fmt.Sprintf("ORestore %d", s.id))
		}
	}
	for ; ci < len(h.calls); ci++ { // handler calls the script does not expect
		oc := h.calls[ci]
		items = append(items, fmt.Sprintf("OBatch %s %s %s %s", coqKeys(nil), coqResp(nil), coqKeys(oc.EvKeys), coqStates(oc.States)))
	}
	term := fmt.Sprintf("Case %d %s", count, hx.CoqList(items, "ostep"))

	// distribution
	st := analyse(ops, steps2ops(steps))
	tags := []string{
		fmt.Sprintf("count=%d", count), fmt.Sprintf("batch_max=%d", maxSize),
		bucket("calls", len(h.calls)), bucket("bytes_written", st.bytesWritten/256),
	}
	if st.sameKeyInBatch {
		tags = append(tags, "same_key_twice_in_batch")
	}
	if st.multiKeyBatch {
		tags = append(tags, "several_keys_in_batch")
	}
	if st.liveDeletes > 0 {
		tags = append(tags, "delete_of_live_entry")
	}
	if st.overwrites > 0 {
		tags = append(tags, "overwrite")
	}
	if st.readAfterChange {
		tags = append(tags, "state_read_after_delete_or_overwrite")
	}
	if st.foreignResult {
		tags = append(tags, "result_for_other_key")
	}
	if st.timers > 0 {
		tags = append(tags, "timers_set")
	}
	if st.bytesWritten > 2*paramInt(c, "mem", 256) {
		tags = append(tags, "memtable_rotated_at_least_twice")
	}
	if nWait > 0 {
		tags = append(tags, "waited_for_flush_compaction")
	}
	if nSinkErr > 0 {
		tags = append(tags, "sink_write_failed_after_handler_call")
	}
	if nArmed > 0 {
		tags = append(tags, "read_fault_armed")
	}
	if nFailed > 0 {
		tags = append(tags, "read_fault_batch_failed_with_error")
	}
	if nSwallowed > 0 {
		tags = append(tags, "read_fault_hit_but_no_error")
	}
	if nArmed > 0 && nFailed == 0 && nSwallowed == 0 {
		tags = append(tags, "read_fault_not_hit")
	}
	if nCkpt > 0 {
		tags = append(tags, "checkpoint")
	}
	if nRestore > 0 {
		tags = append(tags, "restore")
	}
	if nCkptParked > 0 {
		tags = append(tags, "checkpoint_while_flush_parked")
	}
	if nCkptParked > 0 && nRestore > 0 {
		tags = append(tags, "restore_after_checkpoint_during_flush")
	}
	if nRestoreOlder > 0 {
		tags = append(tags, "restore_older_retained_checkpoint")
	}
	if autoReleased > 0 {
		tags = append(tags, "flush_gate_opened_by_backpressure")
	}
	_ = nHold
	if nsst >= 0 {
		tags = append(tags, bucket("sst_files", nsst))
	}
	_ = nFlushOps
	nontrivial := len(h.calls) >= 2 && st.readAfterChange
	return &hx.Result{Term: term, Nontrivial: nontrivial, Tags: tags,
		Observed: map[string]any{"handler_calls": h.calls, "checkpoints": len(job.ckpts)}}, nil
}

type xstep struct {
	kind string // batch | ckpt | restore
	ops  []int
	id   uint64
}

func steps2ops(steps []xstep) [][]int {
	var out [][]int
	for _, s := range steps {
		if s.kind == "batch" || s.kind == "batchE" {
			out = append(out, s.ops)
		}
	}
	return out
}

type stats struct {
	sameKeyInBatch, multiKeyBatch, readAfterChange, foreignResult bool
	liveDeletes, overwrites, timers, bytesWritten                 int
}

// analyse is only used for distribution tags / the non-triviality rule (restores are ignored: heuristic).
func analyse(ops []op, batches [][]int) stats {
	var s stats
	live := map[liveKey]bool{}
	changed := map[string]bool{} // subject keys with a delete/overwrite of a live entry not yet read again
	for _, b := range batches {
		seen := map[string]bool{}
		for _, i := range b {
			k := string(ops[i].Key)
			if seen[k] {
				s.sameKeyInBatch = true
			}
			seen[k] = true
			if changed[k] {
				s.readAfterChange = true
			}
		}
		if len(seen) > 1 {
			s.multiKeyBatch = true
		}
		for _, i := range b {
			for _, kr := range ops[i].Res {
				if string(kr.Key) != string(ops[i].Key) {
					s.foreignResult = true
				}
				s.timers += len(kr.Timers)
				for _, m := range kr.Muts {
					for _, x := range m.Ms {
						lk := liveKey{string(kr.Key), string(m.Ns), string(x.E)}
						s.bytesWritten += len(kr.Key) + len(m.Ns) + len(x.E) + len(x.V) + 8
						if x.Put {
							if live[lk] {
								s.overwrites++
								changed[lk.k] = true
							}
							live[lk] = true
						} else if live[lk] {
							s.liveDeletes++
							changed[lk.k] = true
							delete(live, lk)
						}
					}
				}
			}
		}
	}
	return s
}

func bucket(name string, v int) string {
	switch {
	case v == 0:
		return name + "=0"
	case v <= 2:
		return name + "=1..2"
	case v <= 8:
		return name + "=3..8"
	case v <= 32:
		return name + "=9..32"
	default:
		return name + ">32"
	}
}

// sealedMemtables reads the number of sealed memtables from the database's diagnostics ("MemTables (num: N)", N
// includes the active one); 0 if the text is not understood (then only the 5 s fallback opens the gate).
func sealedMemtables(db *dkv.DB) int {
	if db == nil {
		return 0
	}
	d := db.Diagnostics()
	i := strings.Index(d, "MemTables (num: ")
	if i < 0 {
		return 0
	}
	n := 0
	for _, c := range d[i+len("MemTables (num: "):] {
		if c < '0' || c > '9' {
			break
		}
		n = n*10 + int(c-'0')
	}
	if n < 1 {
		return 0
	}
	return n - 1
}

// settleGC runs the garbage collector and waits until cleanups queued by it have run (a sentinel object's
// cleanup is queued by the same collection); a few rounds because cleanups may make more objects unreachable.
// TIMING, harmless: it only gets the file deletions of already dropped tables out of the way early (less noise); that
// a late cleanup of the old deployment cannot hurt the new one is guaranteed by faultFS.dead, not by this wait.
func settleGC() {
	for i := 0; i < 3; i++ {
		done := make(chan struct{})
		s := new([16]byte)
		runtime.AddCleanup(s, func(ch chan struct{}) { close(ch) }, done)
		s = nil
		runtime.GC()
		select {
		case <-done:
		case <-time.After(2 * time.Second):
		}
	}
}

func debugDump(db *dkv.DB, tag string) {
	if os.Getenv("C03_DUMP") == "" {
		return
	}
	var err error
	n := 0
	for e := range db.ScanPrefix(nil, &err) {
		k := e.Key()
		if len(k) > 24 {
			k = append(append([]byte{}, k[:12]...), k[len(k)-12:]...)
		}
		fmt.Fprintf(os.Stderr, "  %s: %x (key %d bytes, value %d)\n", tag, k, len(e.Key()), len(e.Value()))
		n++
	}
	fmt.Fprintln(os.Stderr, tag, "entries", n, err)
}

var scratchDir string

func scratchRoot() string {
	if scratchDir == "" {
		// tiny tables, many fsyncs: prefer a memory-backed directory
		d := "/dev/shm"
		if st, err := os.Stat(d); err != nil || !st.IsDir() {
			d = os.TempDir()
		}
		scratchDir = d
	}
	return scratchDir
}

func main() {
	if os.Getenv("C03_LOG") == "" {
		slog.SetDefault(slog.New(slog.NewTextHandler(io.Discard, nil)))
	}
	if pf := os.Getenv("C03_PROF"); pf != "" {
		f, _ := os.Create(pf)
		pprof.StartCPUProfile(f)
		defer pprof.StopCPUProfile()
	}
	hx.Main(eng{})
}
