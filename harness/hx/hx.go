// Package hx is the shared harness library: seeded PRNG, Gallina printers, case sharding,
// meta.json, and the generic engine driver (generate | run given cases | replay).
package hx

import (
	"bufio"
	"crypto/sha256"
	"encoding/hex"
	"encoding/json"
	"flag"
	"fmt"
	"io"
	"os"
	"os/exec"
	"path/filepath"
	"sort"
	"strconv"
	"strings"
	"sync"
	"syscall"
	"time"
)

// ---------- PRNG (splitmix64): every random choice of an engine derives from one state ----------

type Rand struct{ s uint64 }

// NewRand hashes the seed first so that consecutive seeds give unrelated streams (a state that is linear in
// the seed would make seed s+1 a one-step shift of seed s).
func NewRand(seed uint64) *Rand {
	z := seed + 0x6A09E667F3BCC909
	z = (z ^ (z >> 30)) * 0xBF58476D1CE4E5B9
	z = (z ^ (z >> 27)) * 0x94D049BB133111EB
	z = z ^ (z >> 31)
	z = (z ^ (z >> 33)) * 0xFF51AFD7ED558CCD
	z = z ^ (z >> 29)
	return &Rand{s: z}
}
func (r *Rand) U64() uint64 {
	r.s += 0x9E3779B97F4A7C15
	z := r.s
	z = (z ^ (z >> 30)) * 0xBF58476D1CE4E5B9
	z = (z ^ (z >> 27)) * 0x94D049BB133111EB
	return z ^ (z >> 31)
}
func (r *Rand) Intn(n int) int {
	if n <= 0 {
		return 0
	}
	return int(r.U64() % uint64(n))
}
func (r *Rand) Range(lo, hi int) int     { return lo + r.Intn(hi-lo+1) } // inclusive
func (r *Rand) Bool() bool               { return r.U64()&1 == 1 }
func (r *Rand) Chance(num, den int) bool { return r.Intn(den) < num }
func (r *Rand) Fork() *Rand              { return NewRand(r.U64()) }
func (r *Rand) Bytes(n int) []byte {
	b := make([]byte, n)
	for i := range b {
		b[i] = byte(r.U64())
	}
	return b
}
func Pick[T any](r *Rand, xs []T) T { return xs[r.Intn(len(xs))] }
func Shuffle[T any](r *Rand, xs []T) {
	for i := len(xs) - 1; i > 0; i-- {
		j := r.Intn(i + 1)
		xs[i], xs[j] = xs[j], xs[i]
	}
}

// ---------- Gallina printers ----------

func CoqN(x uint64) string { return fmt.Sprintf("%d%%N", x) }
func CoqZ(x int64) string {
	if x < 0 {
		return fmt.Sprintf("(%d)%%Z", x)
	}
	return fmt.Sprintf("%d%%Z", x)
}
func CoqNat(x int) string { return fmt.Sprintf("%d%%nat", x) }
func CoqBool(b bool) string {
	if b {
		return "true"
	}
	return "false"
}

// CoqBytes prints a byte string as a `list N` literal in scope N.
func CoqBytes(b []byte) string {
	if len(b) == 0 {
		return "(@nil N)"
	}
	var sb strings.Builder
	sb.WriteString("[")
	for i, c := range b {
		if i > 0 {
			sb.WriteString(";")
		}
		fmt.Fprintf(&sb, "%d", c)
	}
	sb.WriteString("]%N")
	return sb.String()
}
func CoqList(items []string, ty string) string {
	if len(items) == 0 {
		return "(@nil (" + ty + "))"
	}
	return "[" + strings.Join(items, "; ") + "]"
}
func CoqOpt(s *string, ty string) string {
	if s == nil {
		return "(@None (" + ty + "))"
	}
	return "(Some " + *s + ")"
}
func CoqPair(a, b string) string { return "(" + a + ", " + b + ")" }

// ---------- cases ----------

// Case is one generated input / history. Params and Ops must be JSON-serialisable; Ops is the
// list the generic shrinker deletes elements from.
type Case struct {
	Name   string            `json:"name"`
	Params map[string]any    `json:"params,omitempty"`
	Ops    []json.RawMessage `json:"ops,omitempty"`
}

func (c *Case) Hash() string {
	b, _ := json.Marshal(struct {
		P map[string]any
		O []json.RawMessage
	}{c.Params, c.Ops})
	h := sha256.Sum256(b)
	return hex.EncodeToString(h[:8])
}

func Op(v any) json.RawMessage { b, _ := json.Marshal(v); return b }

// Result of executing one case on the implementation.
type Result struct {
	Term       string   // Gallina term of the engine's `case` type, observed outputs included
	Nontrivial bool     // by the engine's stated rule
	Tags       []string // distribution tags (regimes reached, error kinds, sizes)
	Observed   any      // JSON-friendly observed outputs, written into the replay / cases.jsonl
}

type Engine interface {
	// Name of the engine; CoqRequire e.g. "From RV Require Import Corr.Check_codec."; CoqCaseType e.g. "Check_codec.case";
	// CoqRun e.g. "Check_codec.run" : list case -> list (N * N)   (case index, failure code)
	Name() string
	CoqRequire(mode string) string
	CoqCaseType(mode string) string
	CoqRun(mode string) string
	Rule(mode string) string
	Generate(mode string, tier string, r *Rand) []*Case
	Execute(mode string, c *Case) (*Result, error)
}

type Meta struct {
	Engine             string         `json:"engine"`
	Mode               string         `json:"mode"`
	Tier               string         `json:"tier"`
	Seed               uint64         `json:"seed"`
	Evaluations        int            `json:"evaluations"`
	DistinctNontrivial int            `json:"distinct_nontrivial"`
	Rule               string         `json:"rule"`
	Distribution       map[string]int `json:"distribution"`
	Samples            []any          `json:"samples"`
	Shards             []string       `json:"shards"`
	CorpusCases        int            `json:"corpus_cases"`
	ExecErrors         []string       `json:"exec_errors,omitempty"`
	Panics             []any          `json:"panics,omitempty"`
}

// safeExecute turns a panic of the implementation (not anticipated by the engine itself) into a recorded outcome.
func safeExecute(e Engine, mode string, c *Case) (res *Result, err error, panicked any) {
	defer func() {
		if p := recover(); p != nil {
			panicked = fmt.Sprintf("%v", p)
		}
	}()
	res, err = e.Execute(mode, c)
	return
}

// Main is the generic driver.
//
//	engine -mode M -tier quick|thorough -seed S -out DIR [-corpus DIR] [-cases FILE.jsonl] [-shard N]
//
// writes DIR/cases_<k>.v, DIR/cases.jsonl (one JSON case per line, index = line number, with observed outputs), DIR/meta.json
func Main(e Engine) {
	mode := flag.String("mode", "", "engine mode (which property / sub-check)")
	tier := flag.String("tier", "quick", "quick|thorough")
	seed := flag.Uint64("seed", 1, "PRNG seed")
	out := flag.String("out", "", "output directory")
	corpus := flag.String("corpus", "", "directory of corpus cases (*.json), run first")
	casesFile := flag.String("cases", "", "run exactly these cases (jsonl) instead of generating")
	shard := flag.Int("shard", 250, "cases per cases_<k>.v")
	worker := flag.Bool("worker", false, "internal: execute cases from -from and print one JSON line per case on stdout")
	from := flag.Int("from", 0, "internal: first case index for -worker")
	caseTimeout := flag.Int("casetimeout", 180, "seconds without progress after which the executing case is declared hung")
	flag.Parse()
	if *out == "" {
		fmt.Fprintln(os.Stderr, "need -out")
		os.Exit(2)
	}
	os.MkdirAll(*out, 0o755)
	var cases []*Case
	ncorpus := 0
	if *casesFile != "" {
		data, err := os.ReadFile(*casesFile)
		if err != nil {
			panic(err)
		}
		for _, line := range strings.Split(string(data), "\n") {
			if strings.TrimSpace(line) == "" {
				continue
			}
			c := &Case{}
			if err := json.Unmarshal([]byte(line), c); err != nil {
				panic(err)
			}
			cases = append(cases, c)
		}
	} else {
		if *corpus != "" {
			files, _ := filepath.Glob(filepath.Join(*corpus, "*.json"))
			sort.Strings(files)
			for _, f := range files {
				data, err := os.ReadFile(f)
				if err != nil {
					continue
				}
				c := &Case{}
				if err := json.Unmarshal(data, c); err != nil {
					fmt.Fprintf(os.Stderr, "corpus %s: %v\n", f, err)
					continue
				}
				if m, ok := c.Params["mode"]; ok && m != *mode {
					continue
				}
				cases = append(cases, c)
				ncorpus++
			}
		}
		cases = append(cases, e.Generate(*mode, *tier, NewRand(*seed))...)
	}
	if *worker {
		// child process: execute only; it must not touch the supervisor's output files
		runWorker(e, *mode, cases, *from)
		return
	}
	meta := &Meta{Engine: e.Name(), Mode: *mode, Tier: *tier, Seed: *seed, Rule: e.Rule(*mode), Distribution: map[string]int{}, CorpusCases: ncorpus, Shards: []string{}, Samples: []any{}}
	seen := map[string]bool{}
	jl, err := os.Create(filepath.Join(*out, "cases.jsonl"))
	if err != nil {
		panic(err)
	}
	defer jl.Close()
	var terms []string
	flush := func() {
		if len(terms) == 0 {
			return
		}
		k := len(meta.Shards)
		name := fmt.Sprintf("cases_%d.v", k)
		var sb strings.Builder
		sb.WriteString(e.CoqRequire(*mode) + "\n")
		sb.WriteString("Open Scope N_scope.\n")
		fmt.Fprintf(&sb, "Definition cases : list (N * %s) := [\n", e.CoqCaseType(*mode))
		sb.WriteString(strings.Join(terms, ";\n"))
		sb.WriteString("\n].\n")
		fmt.Fprintf(&sb, "Definition R := Eval vm_compute in (%s cases).\nPrint R.\n", e.CoqRun(*mode))
		if err := os.WriteFile(filepath.Join(*out, name), []byte(sb.String()), 0o644); err != nil {
			panic(err)
		}
		meta.Shards = append(meta.Shards, name)
		terms = nil
	}
	record := func(i int, c *Case, res *Result, err error, pan any) {
		if pan != nil {
			meta.Evaluations++
			meta.Panics = append(meta.Panics, map[string]any{"index": i, "case": c, "panic": pan})
			b, _ := json.Marshal(map[string]any{"index": i, "case": c, "panic": pan})
			jl.Write(append(b, '\n'))
			return
		}
		if err != nil {
			meta.ExecErrors = append(meta.ExecErrors, fmt.Sprintf("case %d (%s): %v", i, c.Name, err))
			b, _ := json.Marshal(map[string]any{"index": i, "case": c, "exec_error": err.Error()})
			jl.Write(append(b, '\n'))
			return
		}
		meta.Evaluations++
		h := c.Hash()
		if res.Nontrivial && !seen[h] {
			seen[h] = true
			meta.DistinctNontrivial++
		}
		for _, t := range res.Tags {
			meta.Distribution[t]++
		}
		if len(meta.Samples) < 3 || (res.Nontrivial && len(meta.Samples) < 5) {
			meta.Samples = append(meta.Samples, map[string]any{"index": i, "case": c, "observed": res.Observed})
		}
		b, _ := json.Marshal(map[string]any{"index": i, "case": c, "observed": res.Observed})
		jl.Write(append(b, '\n'))
		terms = append(terms, fmt.Sprintf("(%d, %s)", i, res.Term))
		if len(terms) >= *shard {
			flush()
		}
	}
	if os.Getenv("HX_INPROCESS") == "1" {
		for i, c := range cases {
			res, err, pan := safeExecute(e, *mode, c)
			record(i, c, res, err, pan)
		}
	} else {
		supervise(*out, cases, *caseTimeout, record)
	}
	flush()
	mb, _ := json.MarshalIndent(meta, "", " ")
	if err := os.WriteFile(filepath.Join(*out, "meta.json"), mb, 0o644); err != nil {
		panic(err)
	}
}

// ---------- supervisor / worker: the implementation runs in a child process, so that a panic in ANY goroutine of the real
// code (or a hang) is attributed to the case being executed and the remaining cases still run ----------

type workerLine struct {
	Start *int    `json:"start,omitempty"`
	I     int     `json:"i"`
	Res   *Result `json:"res,omitempty"`
	Err   string  `json:"err,omitempty"`
	Panic string  `json:"panic,omitempty"`
}

func runWorker(e Engine, mode string, cases []*Case, from int) {
	w := bufio.NewWriter(os.Stdout)
	enc := json.NewEncoder(w)
	// a worker executes a bounded number of cases and then exits cleanly; the supervisor starts the next one. This keeps what the
	// code under test (or the engine) accumulates per process - open descriptors, leaked goroutines, garbage - from building up
	// over a long run and failing a late case for a reason that has nothing to do with that case.
	batch := workerBatch()
	for i := from; i < len(cases) && i < from+batch; i++ {
		ii := i
		enc.Encode(workerLine{Start: &ii, I: i})
		w.Flush()
		res, err, pan := safeExecute(e, mode, cases[i])
		l := workerLine{I: i, Res: res}
		if pan != nil {
			l.Panic = fmt.Sprintf("%v", pan)
			l.Res = nil
		} else if err != nil {
			l.Err = err.Error()
			l.Res = nil
		}
		enc.Encode(l)
		w.Flush()
	}
}

func workerBatch() int {
	if v, err := strconv.Atoi(os.Getenv("HX_WORKER_BATCH")); err == nil && v > 0 {
		return v
	}
	return 150
}

type tailBuf struct {
	mu   sync.Mutex
	head []byte // the first bytes of the worker's stderr: a Go crash dump names its cause at the top
	buf  []byte
}

func (t *tailBuf) Write(p []byte) (int, error) {
	t.mu.Lock()
	if len(t.head) < 4000 {
		n := 4000 - len(t.head)
		if n > len(p) {
			n = len(p)
		}
		t.head = append(t.head, p[:n]...)
	}
	t.buf = append(t.buf, p...)
	if len(t.buf) > 6000 {
		t.buf = t.buf[len(t.buf)-6000:]
	}
	t.mu.Unlock()
	return len(p), nil
}
func (t *tailBuf) String() string { t.mu.Lock(); defer t.mu.Unlock(); return string(t.buf) }
func (t *tailBuf) Head() string   { t.mu.Lock(); defer t.mu.Unlock(); return string(t.head) }

// killedFromOutside reports whether the worker process was ended by a signal somebody else sent it (an operator's pkill, a time
// limit of the surrounding tool) rather than by the code under test: the process was terminated by an uncaught signal, or the Go
// runtime printed the dump it prints for SIGQUIT/SIGTERM/SIGINT/SIGHUP. A crash of the implementation starts with "panic:",
// "fatal error:" or "SIGSEGV"/"SIGBUS" ("unexpected signal") instead.
func killedFromOutside(werr error, head string) bool {
	if ee, ok := werr.(*exec.ExitError); ok {
		if ws, ok := ee.Sys().(syscall.WaitStatus); ok && ws.Signaled() {
			return true
		}
	}
	h := strings.TrimSpace(head)
	for _, sig := range []string{"SIGQUIT: quit", "SIGTERM: termination", "SIGINT: interrupt", "SIGHUP: hangup"} {
		if strings.HasPrefix(h, sig) {
			return true
		}
	}
	return false
}

func supervise(out string, cases []*Case, caseTimeout int, record func(int, *Case, *Result, error, any)) {
	all := filepath.Join(out, "all_cases.jsonl")
	f, err := os.Create(all)
	if err != nil {
		panic(err)
	}
	for _, c := range cases {
		b, _ := json.Marshal(c)
		f.Write(append(b, '\n'))
	}
	f.Close()
	next := 0
	retried := map[int]bool{}
	failedBefore := false
	for next < len(cases) {
		args := append([]string{}, os.Args[1:]...)
		args = append(args, "-cases", all, "-worker", "-from", fmt.Sprint(next))
		batchEnd := next + workerBatch()
		cmd := exec.Command(os.Args[0], args...)
		if failedBefore {
			// engines may bound the remaining cases more tightly once the run already carries a violation (a worker died or hung)
			cmd.Env = append(os.Environ(), "HX_AFTER_FAILURE=1")
		}
		stdout, _ := cmd.StdoutPipe()
		tail := &tailBuf{}
		cmd.Stderr = tail
		if err := cmd.Start(); err != nil {
			panic(err)
		}
		lines := make(chan workerLine)
		go func() {
			rd := bufio.NewReaderSize(stdout, 1<<20)
			for {
				b, err := rd.ReadBytes('\n')
				if len(b) > 0 {
					var l workerLine
					if json.Unmarshal(b, &l) == nil {
						lines <- l
					}
				}
				if err != nil {
					if err != io.EOF {
						fmt.Fprintln(os.Stderr, "worker read:", err)
					}
					close(lines)
					return
				}
			}
		}()
		started := -1
		hung := false
	loop:
		for {
			select {
			case l, ok := <-lines:
				if !ok {
					break loop
				}
				if l.Start != nil {
					started = *l.Start
					continue
				}
				switch {
				case l.Panic != "":
					record(l.I, cases[l.I], nil, nil, l.Panic)
				case l.Err != "":
					record(l.I, cases[l.I], nil, fmt.Errorf("%s", l.Err), nil)
				default:
					record(l.I, cases[l.I], l.Res, nil, nil)
				}
				next = l.I + 1
				started = -1
			case <-time.After(time.Duration(caseTimeout) * time.Second):
				hung = true
				cmd.Process.Kill()
				break loop
			}
		}
		if hung {
			for range lines {
			}
		}
		werr := cmd.Wait()
		if next >= len(cases) && started < 0 {
			break
		}
		if started >= 0 && !hung && !retried[started] {
			// The death of the worker process is attributed to the case only if it happens again when the case is executed in a
			// fresh worker: a signal from outside (an operator's pkill, a tool's time limit), a goroutine left over from an earlier
			// case, or resource exhaustion of a long-lived process are not verdicts about this case, while a panic or fatal error
			// the case provokes is reproduced by the retry (engines force their schedules) and reported then.
			fmt.Fprintf(os.Stderr, "hx: worker died while executing case %d (%v, outside signal: %v); retrying the case once. Its stderr began with:\n%s\n",
				started, werr, killedFromOutside(werr, tail.Head()), firstLines(tail.Head(), 25))
			retried[started] = true
			next = started
			continue
		}
		if started >= 0 {
			failedBefore = true
			if !hung {
				fmt.Fprintf(os.Stderr, "hx: worker died while executing case %d (%v); its stderr began with:\n%s\n", started, werr, firstLines(tail.Head(), 25))
			}
			what := fmt.Sprintf("the process running the implementation died while executing this case (%v): %s", werr, lastLines(tail.Head()+"\n"+tail.String(), 12))
			if hung {
				what = fmt.Sprintf("no progress for %d s while executing this case (hang / deadlock / livelock); worker killed", caseTimeout)
			}
			record(started, cases[started], nil, nil, what)
			next = started + 1
		} else if werr != nil && next >= batchEnd {
			// the worker had executed and reported every case of its batch and failed only while exiting (goroutines of finished
			// cases running into the process's tear-down): like the end of the whole run, this is not a verdict about any case
			fmt.Fprintf(os.Stderr, "hx: worker exited with %v after completing its batch (cases < %d); ignored\n", werr, next)
		} else if werr != nil {
			// died between cases: report against the next case as an execution error and move on
			if next < len(cases) {
				record(next, cases[next], nil, fmt.Errorf("worker died before starting the case (%v): %s", werr, lastLines(tail.String(), 8)), nil)
				next++
			}
		}
	}
}

func firstLines(s string, n int) string {
	ls := strings.Split(strings.TrimSpace(s), "\n")
	if len(ls) > n {
		ls = ls[:n]
	}
	return strings.Join(ls, "\n")
}

func lastLines(s string, n int) string {
	ls := strings.Split(strings.TrimSpace(s), "\n")
	// the panic message is at the top of a Go crash dump: keep the first lines that mention it plus the tail
	for i, l := range ls {
		if strings.HasPrefix(l, "panic:") || strings.HasPrefix(l, "fatal error:") {
			end := i + n
			if end > len(ls) {
				end = len(ls)
			}
			return strings.Join(ls[i:end], " | ")
		}
	}
	if len(ls) > n {
		ls = ls[len(ls)-n:]
	}
	return strings.Join(ls, " | ")
}
