// Package hx is the shared harness library: seeded PRNG, Gallina printers, case sharding,
// meta.json, and the generic engine driver (generate | run given cases | replay).
package hx

import (
	"crypto/sha256"
	"encoding/hex"
	"encoding/json"
	"flag"
	"fmt"
	"os"
	"path/filepath"
	"sort"
	"strings"
)

// ---------- PRNG (splitmix64): every random choice of an engine derives from one state ----------

type Rand struct{ s uint64 }

// NewRand hashes the seed first so that consecutive seeds give unrelated streams (a state that is linear in
// the seed would make seed s+1 a one-step shift of seed s).
func NewRand(seed uint64) *Rand {
	z := seed + 0x6A09E667F3BCC909
	z = (z ^ (z >> 30)) * 0xBF58476D1CE4E5B9
	z = (z ^ (z >> 27)) * 0x94D049BB133111EB
	z = z ^ (z >> 31)
	z = (z ^ (z >> 33)) * 0xFF51AFD7ED558CCD
	z = z ^ (z >> 29)
	return &Rand{s: z}
}
func (r *Rand) U64() uint64 {
	r.s += 0x9E3779B97F4A7C15
	z := r.s
	z = (z ^ (z >> 30)) * 0xBF58476D1CE4E5B9
	z = (z ^ (z >> 27)) * 0x94D049BB133111EB
	return z ^ (z >> 31)
}
func (r *Rand) Intn(n int) int {
	if n <= 0 {
		return 0
	}
	return int(r.U64() % uint64(n))
}
func (r *Rand) Range(lo, hi int) int { return lo + r.Intn(hi-lo+1) } // inclusive
func (r *Rand) Bool() bool           { return r.U64()&1 == 1 }
func (r *Rand) Chance(num, den int) bool { return r.Intn(den) < num }
func (r *Rand) Fork() *Rand          { return NewRand(r.U64()) }
func (r *Rand) Bytes(n int) []byte {
	b := make([]byte, n)
	for i := range b {
		b[i] = byte(r.U64())
	}
	return b
}
func Pick[T any](r *Rand, xs []T) T { return xs[r.Intn(len(xs))] }
func Shuffle[T any](r *Rand, xs []T) {
	for i := len(xs) - 1; i > 0; i-- {
		j := r.Intn(i + 1)
		xs[i], xs[j] = xs[j], xs[i]
	}
}

// ---------- Gallina printers ----------

func CoqN(x uint64) string { return fmt.Sprintf("%d%%N", x) }
func CoqZ(x int64) string {
	if x < 0 {
		return fmt.Sprintf("(%d)%%Z", x)
	}
	return fmt.Sprintf("%d%%Z", x)
}
func CoqNat(x int) string { return fmt.Sprintf("%d%%nat", x) }
func CoqBool(b bool) string {
	if b {
		return "true"
	}
	return "false"
}

// CoqBytes prints a byte string as a `list N` literal in scope N.
func CoqBytes(b []byte) string {
	if len(b) == 0 {
		return "(@nil N)"
	}
	var sb strings.Builder
	sb.WriteString("[")
	for i, c := range b {
		if i > 0 {
			sb.WriteString(";")
		}
		fmt.Fprintf(&sb, "%d", c)
	}
	sb.WriteString("]%N")
	return sb.String()
}
func CoqList(items []string, ty string) string {
	if len(items) == 0 {
		return "(@nil (" + ty + "))"
	}
	return "[" + strings.Join(items, "; ") + "]"
}
func CoqOpt(s *string, ty string) string {
	if s == nil {
		return "(@None (" + ty + "))"
	}
	return "(Some " + *s + ")"
}
func CoqPair(a, b string) string { return "(" + a + ", " + b + ")" }

// ---------- cases ----------

// Case is one generated input / history. Params and Ops must be JSON-serialisable; Ops is the
// list the generic shrinker deletes elements from.
type Case struct {
	Name   string            `json:"name"`
	Params map[string]any    `json:"params,omitempty"`
	Ops    []json.RawMessage `json:"ops,omitempty"`
}

func (c *Case) Hash() string {
	b, _ := json.Marshal(struct {
		P map[string]any
		O []json.RawMessage
	}{c.Params, c.Ops})
	h := sha256.Sum256(b)
	return hex.EncodeToString(h[:8])
}

func Op(v any) json.RawMessage { b, _ := json.Marshal(v); return b }

// Result of executing one case on the implementation.
type Result struct {
	Term       string         // Gallina term of the engine's `case` type, observed outputs included
	Nontrivial bool           // by the engine's stated rule
	Tags       []string       // distribution tags (regimes reached, error kinds, sizes)
	Observed   any            // JSON-friendly observed outputs, written into the replay / cases.jsonl
}

type Engine interface {
	// Name of the engine; CoqRequire e.g. "From RV Require Import Corr.Check_codec."; CoqCaseType e.g. "Check_codec.case";
	// CoqRun e.g. "Check_codec.run" : list case -> list (N * N)   (case index, failure code)
	Name() string
	CoqRequire(mode string) string
	CoqCaseType(mode string) string
	CoqRun(mode string) string
	Rule(mode string) string
	Generate(mode string, tier string, r *Rand) []*Case
	Execute(mode string, c *Case) (*Result, error)
}

type Meta struct {
	Engine             string         `json:"engine"`
	Mode               string         `json:"mode"`
	Tier               string         `json:"tier"`
	Seed               uint64         `json:"seed"`
	Evaluations        int            `json:"evaluations"`
	DistinctNontrivial int            `json:"distinct_nontrivial"`
	Rule               string         `json:"rule"`
	Distribution       map[string]int `json:"distribution"`
	Samples            []any          `json:"samples"`
	Shards             []string       `json:"shards"`
	CorpusCases        int            `json:"corpus_cases"`
	ExecErrors         []string       `json:"exec_errors,omitempty"`
	Panics             []any          `json:"panics,omitempty"`
}

// safeExecute turns a panic of the implementation (not anticipated by the engine itself) into a recorded outcome.
func safeExecute(e Engine, mode string, c *Case) (res *Result, err error, panicked any) {
	defer func() {
		if p := recover(); p != nil {
			panicked = fmt.Sprintf("%v", p)
		}
	}()
	res, err = e.Execute(mode, c)
	return
}

// Main is the generic driver.
//
//	engine -mode M -tier quick|thorough -seed S -out DIR [-corpus DIR] [-cases FILE.jsonl] [-shard N]
//
// writes DIR/cases_<k>.v, DIR/cases.jsonl (one JSON case per line, index = line number, with observed outputs), DIR/meta.json
func Main(e Engine) {
	mode := flag.String("mode", "", "engine mode (which property / sub-check)")
	tier := flag.String("tier", "quick", "quick|thorough")
	seed := flag.Uint64("seed", 1, "PRNG seed")
	out := flag.String("out", "", "output directory")
	corpus := flag.String("corpus", "", "directory of corpus cases (*.json), run first")
	casesFile := flag.String("cases", "", "run exactly these cases (jsonl) instead of generating")
	shard := flag.Int("shard", 250, "cases per cases_<k>.v")
	flag.Parse()
	if *out == "" {
		fmt.Fprintln(os.Stderr, "need -out")
		os.Exit(2)
	}
	os.MkdirAll(*out, 0o755)
	var cases []*Case
	ncorpus := 0
	if *casesFile != "" {
		data, err := os.ReadFile(*casesFile)
		if err != nil {
			panic(err)
		}
		for _, line := range strings.Split(string(data), "\n") {
			if strings.TrimSpace(line) == "" {
				continue
			}
			c := &Case{}
			if err := json.Unmarshal([]byte(line), c); err != nil {
				panic(err)
			}
			cases = append(cases, c)
		}
	} else {
		if *corpus != "" {
			files, _ := filepath.Glob(filepath.Join(*corpus, "*.json"))
			sort.Strings(files)
			for _, f := range files {
				data, err := os.ReadFile(f)
				if err != nil {
					continue
				}
				c := &Case{}
				if err := json.Unmarshal(data, c); err != nil {
					fmt.Fprintf(os.Stderr, "corpus %s: %v\n", f, err)
					continue
				}
				if m, ok := c.Params["mode"]; ok && m != *mode {
					continue
				}
				cases = append(cases, c)
				ncorpus++
			}
		}
		cases = append(cases, e.Generate(*mode, *tier, NewRand(*seed))...)
	}
	meta := &Meta{Engine: e.Name(), Mode: *mode, Tier: *tier, Seed: *seed, Rule: e.Rule(*mode), Distribution: map[string]int{}, CorpusCases: ncorpus}
	seen := map[string]bool{}
	jl, err := os.Create(filepath.Join(*out, "cases.jsonl"))
	if err != nil {
		panic(err)
	}
	defer jl.Close()
	var terms []string
	flush := func() {
		if len(terms) == 0 {
			return
		}
		k := len(meta.Shards)
		name := fmt.Sprintf("cases_%d.v", k)
		var sb strings.Builder
		sb.WriteString(e.CoqRequire(*mode) + "\n")
		sb.WriteString("Open Scope N_scope.\n")
		fmt.Fprintf(&sb, "Definition cases : list (N * %s) := [\n", e.CoqCaseType(*mode))
		sb.WriteString(strings.Join(terms, ";\n"))
		sb.WriteString("\n].\n")
		fmt.Fprintf(&sb, "Definition R := Eval vm_compute in (%s cases).\nPrint R.\n", e.CoqRun(*mode))
		if err := os.WriteFile(filepath.Join(*out, name), []byte(sb.String()), 0o644); err != nil {
			panic(err)
		}
		meta.Shards = append(meta.Shards, name)
		terms = nil
	}
	for i, c := range cases {
		res, err, pan := safeExecute(e, *mode, c)
		if pan != nil {
			meta.Evaluations++
			meta.Panics = append(meta.Panics, map[string]any{"index": i, "case": c, "panic": pan})
			b, _ := json.Marshal(map[string]any{"index": i, "case": c, "panic": pan})
			jl.Write(append(b, '\n'))
			continue
		}
		if err != nil {
			meta.ExecErrors = append(meta.ExecErrors, fmt.Sprintf("case %d (%s): %v", i, c.Name, err))
			b, _ := json.Marshal(map[string]any{"index": i, "case": c, "exec_error": err.Error()})
			jl.Write(append(b, '\n'))
			continue
		}
		meta.Evaluations++
		h := c.Hash()
		if res.Nontrivial && !seen[h] {
			seen[h] = true
			meta.DistinctNontrivial++
		}
		for _, t := range res.Tags {
			meta.Distribution[t]++
		}
		if len(meta.Samples) < 3 || (res.Nontrivial && len(meta.Samples) < 5) {
			meta.Samples = append(meta.Samples, map[string]any{"index": i, "case": c, "observed": res.Observed})
		}
		b, _ := json.Marshal(map[string]any{"index": i, "case": c, "observed": res.Observed})
		jl.Write(append(b, '\n'))
		terms = append(terms, fmt.Sprintf("(%d, %s)", i, res.Term))
		if len(terms) >= *shard {
			flush()
		}
	}
	flush()
	mb, _ := json.MarshalIndent(meta, "", " ")
	if err := os.WriteFile(filepath.Join(*out, "meta.json"), mb, 0o644); err != nil {
		panic(err)
	}
}
