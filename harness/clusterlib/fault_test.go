package clusterlib

import (
	"testing"
	"time"
)

// after a restart from a checkpoint the restored state is read from table files through the fault-injecting file system
func TestDataReadsAreCounted(t *testing.T) {
	dir := testDir()
	sc := mkScript(2, 14, 1)
	c, err := New(Options{Dir: dir, Workers: 1, KeyGroups: 2, OpBatch: 1, SrBatch: 1, ReadBatch: 1, Script: sc})
	if err != nil {
		t.Fatal(err)
	}
	defer c.Close()
	c.StartWorkers(1)
	if !c.AwaitRunning(0, 5*time.Second) {
		t.Fatal("not running")
	}
	sc.Allow(0, 12)
	sc.Allow(1, 12)
	c.Await(func(l *Log) bool { return len(l.Invocations) >= 24 }, 5*time.Second)
	t.Logf("reads gen1 %d invocations %d errors %v", c.DataReads(0), len(c.Log().Invocations), c.Log().Errors)
	c.AwaitFlushed(time.Second)
	c.TriggerCheckpoint()
	if !c.AwaitPublished(1, 5*time.Second) {
		t.Fatal("not published")
	}
	c.RestartJob(1)
	c.StartWorkers(1)
	if !c.AwaitRunning(1, 5*time.Second) {
		t.Fatal("not running 2")
	}
	sc.Allow(0, 2)
	c.Await(func(l *Log) bool { return len(l.Invocations) >= 26 }, 5*time.Second)
	t.Logf("reads gen2 %d errors %v", c.DataReads(1), c.Log().Errors)
	if c.DataReads(1) == 0 {
		t.Fatal("no data read of a table file was seen by the fault-injecting file system")
	}
}
