// Package clusterlib is a reusable in-process cluster of the REAL reduction components:
// jobs.Job (+ snapshots.Store), operator.Operator (+ DKV on a local directory), sourcerunner.SourceRunner,
// wired through in-process adapters that implement proto.Job / proto.Operator / proto.SourceRunner by calling
// the Handle* methods directly. Owner: C01. Users: engines `cluster` (C01), C06, C14, C15.
//
// # API (everything else in this file is internal)
//
//	script := clusterlib.NewScript([][]Record{...})       // the source: one record list per split, records are released
//	script.Allow(split, n) / AllowAll() / Append(split, recs...)   // ... to the readers only as far as allowed (pacing)
//
//	c, err := clusterlib.New(Options{Dir, Workers, KeyGroups, OpBatch, SrBatch, ReadBatch, Script, DKV, SavepointURI, Hooks})
//	    // creates the job over <Dir>/job (loading the newest checkpoint found there) -- no workers yet
//	ws := c.StartWorkers(n)                 // n new workers (each = 1 real Operator + 1 real SourceRunner), they register themselves
//	c.AwaitRunning(gen, timeout)            // until an assembly was deployed, splits assigned and the checkpoint ticker exists
//	c.TriggerCheckpoint()                   // ticks the job's "checkpointing" ticker (frozen clock)
//	c.HoldAcks(true); c.Parked(); c.Release(a); c.Drop(a)   // gate / permute / lose checkpoint acknowledgements
//	c.AwaitPublished(id, timeout)           // the job checkpoint file of id has been written to the store
//	c.HoldPublication(); c.ReleasePublication()   // slow storage: job checkpoint files are written only after the release
//	Options.Hooks.OnDeploy(gen, opID, first)      // inside the job's Deploy call to an operator (between the job's checkpoint
//	                                              // read and the start of the source splitter)
//	c.Kill(w) / c.KillAll()                 // crash a worker: adapters from/to it return errors, its goroutines are halted
//	c.ExpireHeartbeats()                    // job clock +10s and live workers re-register: the job purges the dead ones
//	c.Deregister(w)                         // alternative to ExpireHeartbeats: explicit deregistration (graceful stop path)
//	c.RestartJob(workers)                   // crash the job too: every worker dies, new jobs.Job over the same store, new WorkerCount
//	c.AwaitFlushed(timeout)                 // no live operator has a sealed memtable left to flush
//	c.InjectReadOutage(w, after, n)         // transient storage outage: n data reads of worker w's table files fail (after `after` more)
//	script.TimerEvery = 3; script.Advance(); c.TickWatermarks()   // event time: records with ID%3==0 register a timer, Advance
//	                                        // inserts time markers, TickWatermarks makes the runners send watermarks
//	c.AwaitCurrent(id, timeout)             // the job's in-memory latest checkpoint is >= id (follows AwaitPublished closely)
//	c.FireRunnerTimers()                    // fire only the source runners' batch time-outs
//	c.FireTimers()                          // fire all pending batch time-outs (batch MaxDelay is virtual; Await does it for you)
//	c.Await(cond, timeout)                  // wait on explicit signals: cond is re-evaluated after every logged observation
//	c.Log()                                 // snapshot of all observations (invocations, emissions, assignments, acks, published...)
//	c.Generation()                          // current deployment generation (0 = none yet; +1 for the first Deploy after a kill)
//	c.JobStoreDir(), c.WorkDir()            // where job checkpoints / operator DKV directories live
//	c.Close()
//
// The reference handler (used unless Options.Handler is set) keeps, per subject key, ONE state entry per applied
// record id (namespace "r", entry key = 4-byte id, value = count byte ++ 4-byte order index), so loss (missing entry)
// and double application (count 2) are both visible in state; plus ONE summary entry per key (entry key "s", 4-byte
// number of applications) that is REWRITTEN on every application, so a stale version of a rewritten entry is visible
// too (Invocation.Sum vs len(Given)); with Script.TimerEvery > 0 a share of the records register an event-time timer whose
// firing records itself in namespace "f" (entry key = timer time, value = number of firings: Invocation.Fired), so a
// lost or repeated timer effect is visible; every invocation is logged with the state it was given.
// A Record with Probe=true is not applied: its invocation only records the state of its key (used to read final state
// through the handler API).
//
// Determinism: no sleep is used as synchronisation. Await wakes on logged observations; a 300us poll only drives the
// virtual batch timers (liveness). Real goroutines of the real components run freely, so interleavings differ between
// runs; only schedule-independent observables should be compared.
package clusterlib

import (
	"context"
	"encoding/binary"
	"errors"
	"fmt"
	"io"
	"iter"
	"log/slog"
	"os"
	"path/filepath"
	"sort"
	"strings"
	"sync"
	"sync/atomic"
	"time"

	"connectrpc.com/connect"
	gproto "google.golang.org/protobuf/proto"
	"google.golang.org/protobuf/types/known/timestamppb"
	"reduction.dev/reduction-protocol/handlerpb"
	"reduction.dev/reduction-protocol/jobconfigpb"
	"reduction.dev/reduction/batching"
	"reduction.dev/reduction/clocks"
	"reduction.dev/reduction/config"
	"reduction.dev/reduction/connectors"
	"reduction.dev/reduction/connectors/embedded"
	"reduction.dev/reduction/dkv"
	"reduction.dev/reduction/dkv/storage"
	"reduction.dev/reduction/jobs"
	"reduction.dev/reduction/proto"
	"reduction.dev/reduction/proto/jobpb"
	"reduction.dev/reduction/proto/snapshotpb"
	"reduction.dev/reduction/proto/workerpb"
	"reduction.dev/reduction/storage/locations"
	"reduction.dev/reduction/util/verifhook"
	"reduction.dev/reduction/workers/operator"
	"reduction.dev/reduction/workers/sourcerunner"
)

// ---------------------------------------------------------------- records and the scripted source

type Record struct {
	ID    uint32 `json:"id"`
	Key   []byte `json:"key"`
	Probe bool   `json:"probe,omitempty"`
	// Event time (seconds) and, if > 0, the event-time timer (seconds) the reference handler registers when it applies the
	// record; both are stamped by the Script when the record is released (see Script.Advance). A Marker record only
	// carries event time (it advances the runner's watermark) and is ignored by the handler.
	TS     int64 `json:"ts,omitempty"`
	Timer  int64 `json:"timer,omitempty"`
	Marker bool  `json:"marker,omitempty"`
}

func (r Record) encode() []byte {
	b := make([]byte, 21+len(r.Key))
	if r.Probe {
		b[0] |= 1
	}
	if r.Marker {
		b[0] |= 2
	}
	binary.BigEndian.PutUint32(b[1:], r.ID)
	binary.BigEndian.PutUint64(b[5:], uint64(r.TS))
	binary.BigEndian.PutUint64(b[13:], uint64(r.Timer))
	copy(b[21:], r.Key)
	return b
}

func DecodeRecord(b []byte) (Record, error) {
	if len(b) < 21 {
		return Record{}, fmt.Errorf("short record")
	}
	return Record{Probe: b[0]&1 != 0, Marker: b[0]&2 != 0, ID: binary.BigEndian.Uint32(b[1:]), TS: int64(binary.BigEndian.Uint64(b[5:])),
		Timer: int64(binary.BigEndian.Uint64(b[13:])), Key: append([]byte{}, b[21:]...)}, nil
}

// MarkerKey is the subject key of marker records.
var MarkerKey = []byte("~marker")

// Script is the data of the scripted multi-split source, shared by all readers of all generations.
type Script struct {
	mu     sync.Mutex
	splits [][]Record
	allow  []int
	wake   chan struct{}
	// event time: `epoch` = number of Advance calls so far. A record released in epoch k gets TS = 1000(k+1) and, when
	// TimerEvery > 0 and ID % TimerEvery == 0, Timer = TS + 1 + ID%400; Advance number j inserts a marker with TS = 1000j+999
	// at the release frontier of EVERY split. So a record's timer lies after every marker before it and before the next
	// marker after it in its own split: it can never be late, and it fires exactly when all runners passed that next marker.
	epoch      int
	markers    int
	TimerEvery int
}

func NewScript(splits [][]Record) *Script {
	s := &Script{wake: make(chan struct{})}
	for _, sp := range splits {
		s.splits = append(s.splits, append([]Record{}, sp...))
		s.allow = append(s.allow, 0)
	}
	return s
}
func (s *Script) NumSplits() int { return len(s.splits) }
func (s *Script) Len(split int) int {
	s.mu.Lock()
	defer s.mu.Unlock()
	return len(s.splits[split])
}
func (s *Script) Records(split int) []Record {
	s.mu.Lock()
	defer s.mu.Unlock()
	return append([]Record{}, s.splits[split]...)
}
func (s *Script) Append(split int, recs ...Record) {
	s.mu.Lock()
	s.splits[split] = append(s.splits[split], recs...)
	s.mu.Unlock()
	s.Poke()
}

// Allow lets readers return n more records of the split (n < 0: everything there is).
func (s *Script) Allow(split, n int) {
	s.mu.Lock()
	old := s.allow[split]
	if n < 0 || s.allow[split]+n > len(s.splits[split]) {
		s.allow[split] = len(s.splits[split])
	} else {
		s.allow[split] += n
	}
	for i := old; i < s.allow[split]; i++ {
		s.stamp(&s.splits[split][i])
	}
	s.mu.Unlock()
	s.Poke()
}

func (s *Script) stamp(r *Record) {
	if r.TS != 0 {
		return
	}
	r.TS = int64(1000 * (s.epoch + 1))
	if s.TimerEvery > 0 && !r.Probe && !r.Marker && int(r.ID)%s.TimerEvery == 0 {
		r.Timer = r.TS + 1 + int64(r.ID%400)
	}
}

// Advance moves event time forward: a marker record is inserted at the release frontier of every split (and released).
// After every runner has read its marker and sent a watermark (Cluster.TickWatermarks), all timers registered by records
// released before this call are due.
func (s *Script) Advance() {
	s.mu.Lock()
	s.epoch++
	for i := range s.splits {
		s.markers++
		m := Record{ID: uint32(2000000 + s.markers), Key: MarkerKey, Marker: true, TS: int64(1000*s.epoch + 999)}
		at := s.allow[i]
		sp := append([]Record{}, s.splits[i][:at]...)
		sp = append(sp, m)
		s.splits[i] = append(sp, s.splits[i][at:]...)
		s.allow[i]++
	}
	s.mu.Unlock()
	s.Poke()
}
func (s *Script) AllowAll() {
	for i := range s.splits {
		s.Allow(i, -1)
	}
}
func (s *Script) Allowed(split int) int {
	s.mu.Lock()
	defer s.mu.Unlock()
	return s.allow[split]
}

// Poke wakes readers blocked waiting for data.
func (s *Script) Poke() {
	s.mu.Lock()
	close(s.wake)
	s.wake = make(chan struct{})
	s.mu.Unlock()
}
func (s *Script) read(split, pos, max int) []Record {
	s.mu.Lock()
	defer s.mu.Unlock()
	hi := s.allow[split]
	if pos >= hi {
		return nil
	}
	if hi-pos > max {
		hi = pos + max
	}
	return append([]Record{}, s.splits[split][pos:hi]...)
}
func (s *Script) waitChan() <-chan struct{} {
	s.mu.Lock()
	defer s.mu.Unlock()
	return s.wake
}

func splitName(i int) string { return fmt.Sprintf("s%03d", i) }
func splitIndex(name string) int {
	var i int
	fmt.Sscanf(name, "s%d", &i)
	return i
}
func encodeCursor(split, pos int) []byte {
	b := make([]byte, 8)
	binary.BigEndian.PutUint32(b, uint32(split))
	binary.BigEndian.PutUint32(b[4:], uint32(pos))
	return b
}
func decodeCursor(b []byte) (split, pos int, ok bool) {
	if len(b) != 8 {
		return 0, 0, false
	}
	return int(binary.BigEndian.Uint32(b)), int(binary.BigEndian.Uint32(b[4:])), true
}

// scriptedSource implements connectors.SourceConfig.
type scriptedSource struct{ c *Cluster }

func (s *scriptedSource) Validate() error                   { return nil }
func (s *scriptedSource) ProtoMessage() *jobconfigpb.Source { return &jobconfigpb.Source{} }
func (s *scriptedSource) NewSourceReader(connectors.SourceReaderHooks) connectors.SourceReader {
	panic("clusterlib: readers are made by the SourceReaderFactory")
}
func (s *scriptedSource) NewSourceSplitter(ids []string, hooks connectors.SourceSplitterHooks, errChan chan<- error) connectors.SourceSplitter {
	return &splitter{c: s.c, ids: ids, hooks: hooks}
}

// splitter assigns split i to runner i mod n, with the cursor found in the checkpoint (0 when there is none).
type splitter struct {
	c     *Cluster
	ids   []string
	hooks connectors.SourceSplitterHooks
}

func (s *splitter) IsSourceSplitter()                     {}
func (s *splitter) Close() error                          { return nil }
func (s *splitter) NotifySplitsFinished(string, []string) {}
func (s *splitter) Checkpoint() []byte                    { return nil }
func (s *splitter) Start(ck *snapshotpb.SourceCheckpoint) error {
	n := s.c.opts.Script.NumSplits()
	pos := make([]int, n)
	seen := make([]int, n)
	for _, st := range ck.GetSplitStates() {
		if sp, p, ok := decodeCursor(st); ok && sp < n {
			pos[sp] = p
			seen[sp]++
		}
	}
	s.c.log.add(func(l *Log) {
		l.Restores = append(l.Restores, Restore{Seq: l.Seq, Gen: s.c.gen.Load(), HasCheckpoint: ck != nil, CheckpointID: ck.GetCheckpointId(), Positions: append([]int{}, pos...), SeenPerSplit: seen})
	})
	as := map[string][]*workerpb.SourceSplit{}
	for _, id := range s.ids {
		as[id] = nil
	}
	for i := 0; i < n && len(s.ids) > 0; i++ {
		id := s.ids[i%len(s.ids)]
		as[id] = append(as[id], &workerpb.SourceSplit{SplitId: splitName(i), SourceId: "script", Cursor: encodeCursor(i, pos[i])})
	}
	s.hooks.AssignSplits(as)
	return nil
}

// reader implements connectors.SourceReader over the script.
type reader struct {
	c      *Cluster
	w      *worker
	splits []int
	pos    map[int]int
	next   int
}

func (r *reader) AssignSplits(splits []*workerpb.SourceSplit) error {
	if r.w.sr != nil { // no wall-clock watermark ticks: the harness owns time (Cluster.TickWatermarks)
		ch := make(chan time.Time)
		r.w.wmTicks.Store(&ch)
		r.w.sr.VerifSetWatermarkTicks(ch)
	}
	for _, sp := range splits {
		i := splitIndex(sp.SplitId)
		_, p, ok := decodeCursor(sp.Cursor)
		if !ok {
			p = 0
		}
		if _, dup := r.pos[i]; !dup {
			r.splits = append(r.splits, i)
		}
		r.pos[i] = p
		r.c.log.add(func(l *Log) {
			l.Assignments = append(l.Assignments, Assignment{Gen: r.w.gen.Load(), Worker: r.w.idx, Split: i, Cursor: p})
		})
	}
	return nil
}

func (r *reader) ReadEvents() ([][]byte, error) {
	if r.w.isDead() {
		return nil, connectors.ErrEndOfInput
	}
	wake := r.c.opts.Script.waitChan()
	for k := 0; k < len(r.splits); k++ {
		sp := r.splits[(r.next+k)%len(r.splits)]
		recs := r.c.opts.Script.read(sp, r.pos[sp], r.c.opts.ReadBatch)
		if len(recs) == 0 {
			continue
		}
		r.next = (r.next + k + 1) % len(r.splits)
		from := r.pos[sp]
		r.pos[sp] += len(recs)
		out := make([][]byte, len(recs))
		ids := make([]uint32, 0, len(recs))
		for i, rc := range recs {
			out[i] = rc.encode()
			if !rc.Marker { // markers are never applied: they are not waited for
				ids = append(ids, rc.ID)
			}
		}
		r.c.log.add(func(l *Log) {
			l.Emissions = append(l.Emissions, Emission{Gen: r.w.gen.Load(), Worker: r.w.idx, Split: sp, From: from, To: from + len(recs), IDs: ids})
		})
		return out, nil
	}
	// nothing to read: block until the script changes, the worker dies, or a short poll interval passes (so that the
	// runner's event loop can take a checkpoint barrier; StartCheckpoint pokes the script, the poll is only a fallback)
	select {
	case <-wake:
	case <-r.w.dead:
	case <-time.After(2 * time.Millisecond):
	}
	return nil, nil
}

func (r *reader) Checkpoint() [][]byte {
	out := make([][]byte, 0, len(r.splits))
	for _, sp := range r.splits {
		out = append(out, encodeCursor(sp, r.pos[sp]))
	}
	return out
}

// ---------------------------------------------------------------- observations

type Entry struct {
	ID    uint32 `json:"id"`
	Count uint32 `json:"count"`
	Ord   uint32 `json:"ord"`
}
type Invocation struct {
	Seq    uint64  `json:"seq"` // position in the global observation order (comparable with Fault.Seq)
	Gen    int64   `json:"gen"`
	Worker int     `json:"worker"`
	Key    []byte  `json:"key"`
	Rec    uint32  `json:"rec"`
	Probe  bool    `json:"probe,omitempty"`
	First  bool    `json:"first"` // first event of this key in its batch: Given is exactly the KeyState of the request
	Given  []Entry `json:"given"` // state the application of this record started from (sorted by id)
	Fired  []Fired `json:"fired"` // the timers of the key that have fired according to the state given (namespace "f")
	Sum    int64   `json:"sum"`   // the key's summary entry (rewritten on EVERY application: number of applications so far) as given; 0 if absent
}
type Fired struct {
	TS    int64  `json:"ts"`
	Count uint32 `json:"count"`
}
type Emission struct {
	Gen      int64
	Worker   int
	Split    int
	From, To int
	IDs      []uint32
}
type Assignment struct {
	Gen    int64
	Worker int
	Split  int
	Cursor int
}
type Fault struct {
	Seq    uint64
	Gen    int64
	Worker int
}
type Fire struct {
	Gen    int64
	Worker int
	Key    []byte
	TS     int64
	Count  uint32 // firings of this timer recorded in state after this one (1 unless it fired twice)
}
type DeployStart struct {
	Seq uint64
	Gen int64
}

// DeployedFrom records, per successful operator Deploy, the checkpoint ids of the operator checkpoints the job handed
// to it (empty = deployed without a checkpoint). Added for C16 (splitter restored from the same job checkpoint).
type DeployedFrom struct {
	Seq           uint64 // position in the global observation order (comparable with Restore.Seq)
	Gen           int64
	Operator      string
	CheckpointIDs []uint64
}
type Restore struct {
	Seq           uint64 // position in the global observation order (comparable with Published.Seq)
	Gen           int64
	HasCheckpoint bool
	CheckpointID  uint64
	Positions     []int
	SeenPerSplit  []int // how many split states the checkpoint held per split (1 each, or 0 without checkpoint)
}
type AckObs struct {
	Ckpt      uint64
	Worker    int
	Kind      string // "sr" | "op"
	Positions map[int]int
	Delivered bool
	Err       string
}
type Published struct {
	Seq       uint64 // position in the global observation order
	Done      bool   // false: the job is about to write the checkpoint file; true: the file has been written
	ID        uint64
	Positions []int // per split, -1 if the checkpoint holds no state for it
	States    []int // per split, how many split states the checkpoint holds (1 each when well-formed)
	Operators int
}
type Log struct {
	Seq          uint64 // number of observations so far
	Invocations  []Invocation
	Emissions    []Emission
	Assignments  []Assignment
	Restores     []Restore
	Acks         []AckObs
	Started      []uint64 // checkpoint ids for which StartCheckpoint reached a runner adapter (deduplicated)
	Published    []Published
	Deploys      []string       // "gen:opid:jobseq" per operator deploy
	Tickers      []int64        // generation at each registration of the job's "checkpointing" ticker
	Fires        []Fire         // timer firings seen by the reference handler
	Faults       []Fault        // injected storage read failures, at the moment the read failed
	DeployStarts []DeployStart  // first Deploy call of every generation (the job has chosen its checkpoint by then)
	DeployedFrom []DeployedFrom // checkpoint ids handed to each operator at Deploy
	Errors       []string       // errors/panics seen at adapter boundaries and on the job's ErrChan
}

type logBox struct {
	mu      sync.Mutex
	l       Log
	changed chan struct{}
}

func (b *logBox) add(f func(*Log)) {
	b.mu.Lock()
	b.l.Seq++
	f(&b.l)
	close(b.changed)
	b.changed = make(chan struct{})
	b.mu.Unlock()
}
func (b *logBox) with(f func(*Log)) {
	b.mu.Lock()
	f(&b.l)
	b.mu.Unlock()
}
func (b *logBox) waitChan() <-chan struct{} {
	b.mu.Lock()
	defer b.mu.Unlock()
	return b.changed
}

// ---------------------------------------------------------------- virtual batch timers

// manualTimer implements clocks.Timer for any number of batchers sharing it: Set remembers the callback, Stop is a
// no-op (a stale callback sends a stale batch token, which EventBatcher.Flush ignores), fire runs everything pending.
type manualTimer struct {
	mu      sync.Mutex
	pending []func()
}

func (t *manualTimer) Set(d time.Duration, do func()) {
	t.mu.Lock()
	t.pending = append(t.pending, do)
	t.mu.Unlock()
}
func (t *manualTimer) Stop() {}
func (t *manualTimer) fire() int {
	t.mu.Lock()
	p := t.pending
	t.pending = nil
	t.mu.Unlock()
	for _, do := range p {
		go do() // the callback blocks until the batcher's owner receives the token
	}
	return len(p)
}

// ---------------------------------------------------------------- clock

// hclock is a FrozenClock that tells the cluster when a labelled ticker is (re)registered.
type hclock struct {
	*clocks.FrozenClock
	mu   sync.Mutex
	regs map[string]int
	note func(label string)
}

func newHClock(note func(string)) *hclock {
	return &hclock{FrozenClock: clocks.NewFrozenClock(), regs: map[string]int{}, note: note}
}
func (c *hclock) Every(d time.Duration, fn func(*clocks.EveryContext), label string) *clocks.Ticker {
	t := c.FrozenClock.Every(d, fn, label)
	c.mu.Lock()
	c.regs[label]++
	c.mu.Unlock()
	if c.note != nil {
		c.note(label)
	}
	return t
}
func (c *hclock) registered(label string) int {
	c.mu.Lock()
	defer c.mu.Unlock()
	return c.regs[label]
}

// ---------------------------------------------------------------- cluster

type Hooks struct {
	// BeforeApply runs synchronously in the operator's event loop before the reference handler applies a record.
	BeforeApply func(worker int, rec Record)
	// OnDeploy runs in the job's Deploy call to an operator, before the operator's HandleDeploy (first = this is the first
	// Deploy of a new generation: the job has read the checkpoint it deploys from, and has not yet started the splitter).
	OnDeploy func(gen int64, opID string, first bool)
}

type Options struct {
	Dir          string // root; job checkpoints in Dir/job, operator DKVs in Dir/work/<operator id>
	Workers      int
	KeyGroups    int
	OpBatch      int // operator EventBatching.MaxSize (<=1: every event is its own batch)
	SrBatch      int // source-runner EventBatching.MaxSize (key-event fetch batches and per-operator send batches)
	ReadBatch    int // max records per ReadEvents
	Script       *Script
	Handler      func(worker int) proto.Handler // nil: reference handler
	DKV          *dkv.VerifDBTuning             // nil: tiny sizes (256-byte memtables)
	SavepointURI string
	Hooks        Hooks
	Quiet        bool // discard slog output of the components (default true via New)
}

type Ack struct {
	Ckpt      uint64
	Worker    int
	Kind      string
	Positions map[int]int
	release   chan bool
}

type worker struct {
	idx      int
	opID     string
	op       *operator.Operator
	sr       *sourcerunner.SourceRunner
	opClock  *hclock
	srClock  *hclock
	opTimer  *manualTimer
	srTimer  *manualTimer
	dead     chan struct{}
	deadOnce sync.Once
	// storage fault injection: data-region reads of table files, counted per worker; reads numbered in (outFrom, outTo] fail
	wmTicks atomic.Pointer[chan time.Time] // the watermark ticker channel of the runner's current deployment
	reads   atomic.Int64
	outFrom atomic.Int64
	outTo   atomic.Int64
	gen     atomic.Int64
	cancel  context.CancelFunc
	done    chan struct{} // both Start calls returned
}

func (w *worker) isDead() bool {
	select {
	case <-w.dead:
		return true
	default:
		return false
	}
}

type Cluster struct {
	opts     Options
	log      *logBox
	mu       sync.Mutex
	job      *jobs.Job
	jobClock *hclock
	jobErr   chan error
	jobSeq   int
	workers  []*worker
	byOpID   map[string]*worker
	bySrID   map[string]*worker
	gen      atomic.Int64
	genOpen  bool // false: the next Deploy starts a new generation
	hold     bool
	pubGate  chan struct{} // non-nil: job checkpoint files are not written until it is closed (HoldPublication)
	parked   []*Ack
	started  map[string]bool
	closed   bool
}

var errDead = connect.NewError(connect.CodeUnavailable, errors.New("clusterlib: worker is dead"))
var errNoJob = connect.NewError(connect.CodeUnavailable, errors.New("clusterlib: job is down"))
var errDropped = connect.NewError(connect.CodeUnavailable, errors.New("clusterlib: acknowledgement dropped"))

var tuneOnce sync.Mutex

func New(opts Options) (*Cluster, error) {
	if opts.Script == nil || opts.Dir == "" || opts.Workers < 1 {
		return nil, fmt.Errorf("clusterlib: need Script, Dir, Workers")
	}
	if opts.KeyGroups == 0 {
		opts.KeyGroups = 8
	}
	if opts.ReadBatch <= 0 {
		opts.ReadBatch = 1
	}
	slog.SetDefault(slog.New(slog.NewTextHandler(io.Discard, nil)))
	t := dkv.VerifDBTuning{MemTableSize: 256, TargetFileSize: 512, MaxWALSize: 1024, L0TableNumCompactionTrigger: 2,
		MaxSizeAmplificationPercent: 50, SmallestLevelSize: 1024, LevelSizeMultiplier: 4}
	if opts.DKV != nil {
		t = *opts.DKV
	}
	verifhook.SetTuning("dkv", t)
	// Operator.HandleDeploy offers its DKV file system at hook point "operator.deploy.fs": wrap it for fault injection.
	// (verifhook has ONE global callback: an engine that installs its own afterwards loses InjectReadOutage only.)
	verifhook.Set(func(name string, args ...any) {
		if name != "operator.deploy.fs" || len(args) != 1 {
			return
		}
		if pfs, ok := args[0].(*storage.FileSystem); ok && pfs != nil {
			if c := currentCluster.Load(); c != nil {
				*pfs = c.wrapFS(*pfs)
			}
		}
	})
	c := &Cluster{opts: opts, log: &logBox{changed: make(chan struct{})}, byOpID: map[string]*worker{}, bySrID: map[string]*worker{}, started: map[string]bool{}}
	if err := os.MkdirAll(filepath.Join(opts.Dir, "work"), 0o755); err != nil {
		return nil, err
	}
	if err := c.newJob(opts.Workers); err != nil {
		return nil, err
	}
	currentCluster.Store(c)
	return c, nil
}

// ---------------------------------------------------------------- storage faults

var currentCluster atomic.Pointer[Cluster]
var errStorageOutage = errors.New("clusterlib: injected transient storage outage")

// wrapFS identifies the deploying operator by the directory of its file system (<work>/<operator id>).
func (c *Cluster) wrapFS(fs storage.FileSystem) storage.FileSystem {
	lfs, ok := fs.(*storage.LocalFilesystem)
	if !ok {
		c.errorf("wrapFS: unexpected file system %T", fs)
		return fs
	}
	c.mu.Lock()
	w := c.byOpID[filepath.Base(lfs.Dir)]
	c.mu.Unlock()
	if w == nil {
		c.errorf("wrapFS: no worker for %q", lfs.Dir)
		return fs
	}
	return &faultFS{FileSystem: fs, w: w, c: c}
}

// AwaitFlushed waits (polling; liveness only) until no live operator has a sealed memtable waiting to be flushed, so that
// a checkpoint taken next references the state in table files rather than only in its WAL.
func (c *Cluster) AwaitFlushed(timeout time.Duration) bool {
	deadline := time.Now().Add(timeout)
	for {
		c.mu.Lock()
		ws := append([]*worker{}, c.workers...)
		c.mu.Unlock()
		pending := false
		for _, w := range ws {
			if w.isDead() || w.gen.Load() == 0 {
				continue
			}
			if db := w.op.VerifDKV(); db != nil && db.VerifMemtableCount() > 1 {
				pending = true
			}
		}
		if !pending {
			return true
		}
		if time.Now().After(deadline) {
			return false
		}
		time.Sleep(200 * time.Microsecond)
	}
}

// InjectReadOutage makes the worker's DKV storage fail transiently: counting from now, the data-region reads of table
// files (not their footers / indexes, whose read errors the DKV turns into panics) numbered after+1 .. after+n fail.
func (c *Cluster) InjectReadOutage(worker, after, n int) {
	c.mu.Lock()
	w := c.workers[worker]
	c.mu.Unlock()
	from := w.reads.Load() + int64(after)
	w.outTo.Store(from + int64(n))
	w.outFrom.Store(from)
}

// DataReads is the number of data-region reads of table files the worker's DKV has issued so far.
func (c *Cluster) DataReads(worker int) int {
	c.mu.Lock()
	w := c.workers[worker]
	c.mu.Unlock()
	return int(w.reads.Load())
}

// ReadOutageHits reports how many reads of the worker failed so far in the injected window.
func (c *Cluster) ReadOutageHits(worker int) int {
	c.mu.Lock()
	w := c.workers[worker]
	c.mu.Unlock()
	r, from, to := w.reads.Load(), w.outFrom.Load(), w.outTo.Load()
	if r > to {
		r = to
	}
	if r <= from {
		return 0
	}
	return int(r - from)
}

type faultFS struct {
	storage.FileSystem
	w *worker
	c *Cluster
}

// Every file of a worker goes through faultFile. A crashed process does no I/O, but db.Close is a no-op in the real code,
// so the DKV of a killed worker keeps flushing / compacting in this process (its I/O cannot be blocked: the DKV's flush and
// compaction queues are process-wide). What must not happen is that such a zombie finds one of its files gone - the DKV
// turns a failed footer read into a panic in a background goroutine, which kills the engine. So deletions are dropped when
// they are issued BY a dead worker (its table collection would remove files the next generation restored from) or hit a
// file IN the directory of a dead worker (cross-generation clean-up). Deletions inside a live generation are untouched.
func (f *faultFS) wrap(path string, file storage.File) storage.File {
	return &faultFile{File: file, w: f.w, c: f.c, sst: strings.HasSuffix(path, ".sst")}
}
func (f *faultFS) Open(path string) storage.File { return f.wrap(path, f.FileSystem.Open(path)) }
func (f *faultFS) New(path string) storage.File  { return f.wrap(path, f.FileSystem.New(path)) }

type faultFile struct {
	storage.File
	w       *worker
	c       *Cluster
	sst     bool
	entries atomic.Int64 // size of the data region (0: not known yet)
}

func (f *faultFile) keep() bool {
	if f.w.isDead() {
		return true
	}
	f.c.mu.Lock()
	owner := f.c.byOpID[filepath.Base(filepath.Dir(f.File.URI()))]
	f.c.mu.Unlock()
	return owner != nil && owner.isDead()
}
func (f *faultFile) Delete() error {
	if f.keep() {
		return nil
	}
	return f.File.Delete()
}
func (f *faultFile) CreateDeleteFunc() func() error {
	del := f.File.CreateDeleteFunc()
	return func() error {
		if f.keep() {
			return nil
		}
		return del()
	}
}

func (f *faultFile) ReadAt(p []byte, off int64) (int, error) {
	if !f.sst {
		return f.File.ReadAt(p, off)
	}
	es := f.entries.Load()
	if es == 0 {
		size := f.File.Size()
		if size == 0 { // a DiskFile opened for reading does not know its size
			if st, err := os.Stat(f.File.URI()); err == nil {
				size = st.Size()
			}
		}
		if size >= 12 {
			var b [8]byte
			if _, err := f.File.ReadAt(b[:], size-12); err == nil {
				es = int64(binary.LittleEndian.Uint64(b[:]))
				f.entries.Store(es)
			}
		}
	}
	if es > 0 && off < es {
		n := f.w.reads.Add(1)
		if n > f.w.outFrom.Load() && n <= f.w.outTo.Load() {
			f.c.log.add(func(l *Log) { l.Faults = append(l.Faults, Fault{Seq: l.Seq, Gen: f.w.gen.Load(), Worker: f.w.idx}) })
			return 0, errStorageOutage
		}
	}
	return f.File.ReadAt(p, off)
}

func (c *Cluster) JobStoreDir() string { return filepath.Join(c.opts.Dir, "job") }
func (c *Cluster) WorkDir() string     { return filepath.Join(c.opts.Dir, "work") }
func (c *Cluster) Generation() int64   { return c.gen.Load() }
func (c *Cluster) Script() *Script     { return c.opts.Script }

func (c *Cluster) errorf(format string, a ...any) {
	msg := fmt.Sprintf(format, a...)
	c.log.add(func(l *Log) { l.Errors = append(l.Errors, msg) })
}

// guard turns a panic of the real code at an adapter boundary into an error (and records it).
func (c *Cluster) guard(what string, f func() error) (err error) {
	defer func() {
		if p := recover(); p != nil {
			c.errorf("PANIC in %s: %v", what, p)
			err = fmt.Errorf("panic in %s: %v", what, p)
		}
	}()
	return f()
}

func (c *Cluster) newJob(workers int) error {
	c.jobClock = newHClock(func(label string) {
		if label == "checkpointing" {
			c.log.add(func(l *Log) { l.Tickers = append(l.Tickers, c.gen.Load()) })
		}
	})
	errc := make(chan error, 64)
	c.mu.Lock()
	nextSeq := c.jobSeq + 1
	c.mu.Unlock()
	store := &recordingStore{StorageLocation: locations.NewLocalDirectory(c.JobStoreDir()), c: c, seq: nextSeq}
	cfg := &config.Config{WorkerCount: workers, KeyGroupCount: c.opts.KeyGroups, WorkingStorageLocation: c.WorkDir(),
		Sources: []connectors.SourceConfig{&scriptedSource{c: c}}}
	if os.Getenv("VERIF_DEBUG") != "" {
		var files []string
		filepath.WalkDir(c.JobStoreDir(), func(p string, d os.DirEntry, err error) error {
			if err == nil && !d.IsDir() {
				files = append(files, filepath.Base(p))
			}
			return nil
		})
		fmt.Fprintf(os.Stderr, "newJob seq=%d gen=%d files=%v\n", c.jobSeq+1, c.gen.Load(), files)
	}
	var job *jobs.Job
	err := c.guard("jobs.New", func() error {
		var e error
		job, e = jobs.New(&jobs.NewParams{JobConfig: cfg, SavepointURI: c.opts.SavepointURI, Clock: c.jobClock, Store: store,
			OperatorFactory: func(senderID string, node *jobpb.NodeIdentity) proto.Operator {
				return &opAdapter{c: c, sender: nil, senderID: senderID, id: node.Id, host: node.Host}
			},
			SourceRunnerFactory: func(node *jobpb.NodeIdentity) proto.SourceRunner {
				return &srAdapter{c: c, id: node.Id, host: node.Host}
			},
			ErrChan: errc})
		return e
	})
	if err != nil {
		return err
	}
	go func() {
		for e := range errc {
			c.errorf("job ErrChan: %v", e)
		}
	}()
	c.mu.Lock()
	c.job, c.jobErr = job, errc
	c.jobSeq++
	c.opts.Workers = workers
	c.mu.Unlock()
	return nil
}

func (c *Cluster) curJob() *jobs.Job {
	c.mu.Lock()
	defer c.mu.Unlock()
	return c.job
}

// recordingStore notes every job checkpoint file written (= published).
type recordingStore struct {
	locations.StorageLocation
	c   *Cluster
	seq int // the job this store belongs to: a crashed job writes nothing any more
}

func (s *recordingStore) Write(path string, data io.Reader) (string, error) {
	b, err := io.ReadAll(data)
	if err != nil {
		return "", err
	}
	s.c.mu.Lock()
	alive := s.c.job != nil && s.c.jobSeq == s.seq
	s.c.mu.Unlock()
	if !alive {
		return "", errNoJob
	}
	var pub *Published
	if strings.HasSuffix(path, ".snapshot") {
		var ck snapshotpb.JobCheckpoint
		if gproto.Unmarshal(b, &ck) == nil {
			n := s.c.opts.Script.NumSplits()
			pub = &Published{ID: ck.Id, Positions: make([]int, n), States: make([]int, n), Operators: len(ck.OperatorCheckpoints)}
			for i := range pub.Positions {
				pub.Positions[i] = -1
			}
			for _, sc := range ck.SourceCheckpoints {
				for _, st := range sc.SplitStates {
					if sp, p, ok := decodeCursor(st); ok && sp < n {
						pub.Positions[sp] = p
						pub.States[sp]++
					}
				}
			}
			s.c.log.add(func(l *Log) { p := *pub; p.Seq = l.Seq; l.Published = append(l.Published, p) })
			// slow storage: the file is not written before ReleasePublication (the job keeps running meanwhile)
			s.c.mu.Lock()
			gate := s.c.pubGate
			s.c.mu.Unlock()
			if gate != nil {
				<-gate
				s.c.mu.Lock()
				alive = s.c.job != nil && s.c.jobSeq == s.seq
				s.c.mu.Unlock()
				if !alive {
					return "", errNoJob
				}
			}
		}
	}
	uri, err := s.StorageLocation.Write(path, strings.NewReader(string(b)))
	if err == nil && pub != nil {
		s.c.log.add(func(l *Log) { p := *pub; p.Seq = l.Seq; p.Done = true; l.Published = append(l.Published, p) })
	}
	return uri, err
}
func (s *recordingStore) List() iter.Seq2[string, error] { return s.StorageLocation.List() }

// StartWorkers creates n new workers and starts them; they register with the current job on their own.
func (c *Cluster) StartWorkers(n int) []int {
	var out []int
	for i := 0; i < n; i++ {
		c.mu.Lock()
		idx := len(c.workers)
		w := &worker{idx: idx, opID: fmt.Sprintf("op-%04d", idx), dead: make(chan struct{}), done: make(chan struct{}),
			opTimer: &manualTimer{}, srTimer: &manualTimer{}}
		w.opClock, w.srClock = newHClock(nil), newHClock(nil)
		c.workers = append(c.workers, w)
		c.byOpID[w.opID] = w
		c.mu.Unlock()

		ja := &jobAdapter{c: c, w: w}
		var h proto.Handler
		if c.opts.Handler != nil {
			h = c.opts.Handler(idx)
		} else {
			h = &refHandler{c: c, w: w}
		}
		opBatch := batching.EventBatcherParams{MaxSize: c.opts.OpBatch, MaxDelay: time.Hour, Timer: w.opTimer}
		srBatch := batching.EventBatcherParams{MaxSize: c.opts.SrBatch, MaxDelay: time.Hour, Timer: w.srTimer}
		w.op = operator.NewOperator(operator.NewOperatorParams{ID: w.opID, Host: "h-" + w.opID, Job: ja, UserHandler: h, EventBatching: opBatch,
			Clock: w.opClock,
			NeighborOperatorFactory: func(senderID string, node *jobpb.NodeIdentity) proto.Operator {
				return &opAdapter{c: c, sender: w, senderID: senderID, id: node.Id, host: node.Host}
			}})
		w.sr = sourcerunner.New(sourcerunner.NewParams{Host: "h-sr-" + w.opID, UserHandler: h, Job: ja, Clock: w.srClock, EventBatching: srBatch,
			OperatorFactory: func(senderID string, node *jobpb.NodeIdentity) proto.Operator {
				return &opAdapter{c: c, sender: w, senderID: senderID, id: node.Id, host: node.Host}
			},
			SourceReaderFactory: func(*jobconfigpb.Source) connectors.SourceReader {
				return &reader{c: c, w: w, pos: map[int]int{}}
			}})
		c.mu.Lock()
		c.bySrID[w.sr.ID] = w
		c.mu.Unlock()

		// like workers.Worker.Start: when either process stops, the other is stopped too (the worker process exits)
		ctx, cancel := context.WithCancel(context.Background())
		w.cancel = cancel
		var wg sync.WaitGroup
		wg.Add(2)
		go func() {
			defer wg.Done()
			err := c.guard("SourceRunner.Start", func() error { return w.sr.Start(ctx) })
			if err != nil && !w.isDead() {
				c.errorf("worker %d source runner stopped: %v", w.idx, err)
			}
			c.markDead(w)
			cancel()
		}()
		go func() {
			defer wg.Done()
			err := c.guard("Operator.Start", func() error { return w.op.Start(ctx) })
			if err != nil && !w.isDead() {
				c.errorf("worker %d operator stopped: %v", w.idx, err)
			}
			c.markDead(w)
			cancel()
		}()
		go func() { wg.Wait(); close(w.done) }()
		out = append(out, idx)
	}
	return out
}

func (c *Cluster) markDead(w *worker) {
	w.deadOnce.Do(func() {
		close(w.dead)
		c.mu.Lock()
		c.genOpen = false
		c.mu.Unlock()
		c.log.add(func(*Log) {})
	})
}

// LiveWorkers returns the indexes of workers that are not dead.
func (c *Cluster) LiveWorkers() []int {
	c.mu.Lock()
	defer c.mu.Unlock()
	var out []int
	for _, w := range c.workers {
		if !w.isDead() {
			out = append(out, w.idx)
		}
	}
	return out
}

// Kill crashes a worker: from now on every call from or to it fails, parked acknowledgements of it are lost, and its
// goroutines are halted (without deregistration: the job finds out through ExpireHeartbeats or Deregister).
func (c *Cluster) Kill(idx int) {
	c.mu.Lock()
	w := c.workers[idx]
	c.mu.Unlock()
	c.markDead(w)
	w.sr.Halt()
	w.op.Halt()
	w.cancel()
	c.opts.Script.Poke()
}

func (c *Cluster) KillAll() {
	for _, i := range c.LiveWorkers() {
		c.Kill(i)
	}
}

// AwaitStopped waits until the Start loops of the given (killed) workers have returned.
func (c *Cluster) AwaitStopped(idxs []int, timeout time.Duration) bool {
	deadline := time.After(timeout)
	for _, i := range idxs {
		c.mu.Lock()
		w := c.workers[i]
		c.mu.Unlock()
		select {
		case <-w.done:
		case <-deadline:
			return false
		}
	}
	return true
}

// ExpireHeartbeats advances the job's clock beyond the heartbeat deadline and lets every live worker re-register
// (their 3s "register" tickers): the job purges the workers that did not, pauses, and re-assembles when it can.
func (c *Cluster) ExpireHeartbeats() {
	c.jobClock.Advance(10 * time.Second)
	c.mu.Lock()
	ws := append([]*worker{}, c.workers...)
	c.mu.Unlock()
	for _, w := range ws {
		if w.isDead() {
			continue
		}
		if w.opClock.registered("register") > 0 {
			c.guard("register tick", func() error { w.opClock.TickEvery("register"); return nil })
		}
		if w.srClock.registered("register") > 0 {
			c.guard("register tick", func() error { w.srClock.TickEvery("register"); return nil })
		}
	}
}

// Deregister tells the job that the (dead) worker's operator and source runner are gone.
func (c *Cluster) Deregister(idx int) {
	c.mu.Lock()
	w := c.workers[idx]
	j := c.job
	c.mu.Unlock()
	if j == nil {
		return
	}
	j.HandleDeregisterSourceRunner(&jobpb.NodeIdentity{Id: w.sr.ID, Host: "h-sr-" + w.opID})
	j.HandleDeregisterOperator(&jobpb.NodeIdentity{Id: w.opID, Host: "h-" + w.opID})
}

// RestartJob crashes the job and all workers and creates a new job over the same store with the given worker count.
func (c *Cluster) RestartJob(workers int) error {
	c.mu.Lock()
	c.job = nil // the job dies first: nothing reaches it any more and it writes nothing any more
	parked := c.parked
	c.parked = nil
	c.mu.Unlock()
	for _, a := range parked {
		select {
		case a.release <- false:
		default:
		}
	}
	c.KillAll()
	return c.newJob(workers)
}

// AwaitRunning waits until generation > afterGen is deployed: all operators of the assembly deployed, every split
// assigned to a reader of that generation, and the job's checkpoint ticker registered for it.
func (c *Cluster) AwaitRunning(afterGen int64, timeout time.Duration) bool {
	c.mu.Lock()
	want := c.opts.Workers
	c.mu.Unlock()
	return c.Await(func(l *Log) bool {
		g := c.gen.Load()
		if g <= afterGen {
			return false
		}
		deploys := 0
		for _, d := range l.Deploys {
			if strings.HasPrefix(d, fmt.Sprintf("%d:", g)) {
				deploys++
			}
		}
		assigned := map[int]bool{}
		for _, a := range l.Assignments {
			if a.Gen == g {
				assigned[a.Split] = true
			}
		}
		restored := false
		for _, r := range l.Restores {
			if r.Gen == g {
				restored = true
			}
		}
		ticker := false
		for _, t := range l.Tickers {
			if t == g {
				ticker = true
			}
		}
		return deploys >= want && restored && len(assigned) == c.opts.Script.NumSplits() && ticker
	}, timeout)
}

// TriggerCheckpoint ticks the job's checkpoint ticker once. The tick runs on its own goroutine; the call returns when
// the tick returned, or -- while acknowledgements are held -- as soon as one is parked (a runner may acknowledge
// inside the StartCheckpoint call, which then does not return before the release).
func (c *Cluster) TriggerCheckpoint() error {
	if c.curJob() == nil {
		return errNoJob
	}
	if c.jobClock.registered("checkpointing") == 0 {
		return fmt.Errorf("clusterlib: job is not running (no checkpoint ticker)")
	}
	jc := c.jobClock
	done := make(chan error, 1)
	go func() {
		done <- c.guard("checkpoint tick", func() error { jc.TickEvery("checkpointing"); return nil })
		c.log.add(func(*Log) {})
	}()
	var err error
	finished := false
	c.await(func(*Log) bool {
		select {
		case err = <-done:
			finished = true
			return true
		default:
		}
		c.mu.Lock()
		defer c.mu.Unlock()
		return c.hold && len(c.parked) > 0
	}, 5*time.Second, false)
	if !finished && err == nil {
		c.mu.Lock()
		n := len(c.parked)
		c.mu.Unlock()
		if n == 0 {
			return fmt.Errorf("clusterlib: checkpoint tick did not return")
		}
	}
	return err
}

// HoldPublication makes the job's checkpoint file writes block (after the "about to publish" observation) until
// ReleasePublication: a fully acknowledged checkpoint whose asynchronous publication is still in flight.
func (c *Cluster) HoldPublication() {
	c.mu.Lock()
	if c.pubGate == nil {
		c.pubGate = make(chan struct{})
	}
	c.mu.Unlock()
}
func (c *Cluster) ReleasePublication() {
	c.mu.Lock()
	if c.pubGate != nil {
		close(c.pubGate)
		c.pubGate = nil
	}
	c.mu.Unlock()
}

func (c *Cluster) HoldAcks(on bool) {
	c.mu.Lock()
	c.hold = on
	c.mu.Unlock()
}

// Parked returns the acknowledgements currently held back (in arrival order).
func (c *Cluster) Parked() []*Ack {
	c.mu.Lock()
	defer c.mu.Unlock()
	return append([]*Ack{}, c.parked...)
}
func (c *Cluster) unpark(a *Ack, deliver bool) {
	c.mu.Lock()
	found := false
	for i, p := range c.parked {
		if p == a {
			c.parked = append(c.parked[:i:i], c.parked[i+1:]...)
			found = true
			break
		}
	}
	c.mu.Unlock()
	if found {
		a.release <- deliver
	}
}

// Release delivers a parked acknowledgement to the job; Drop makes the call fail without reaching the job.
func (c *Cluster) Release(a *Ack) { c.unpark(a, true) }
func (c *Cluster) Drop(a *Ack)    { c.unpark(a, false) }

func (c *Cluster) ack(w *worker, kind string, id uint64, positions map[int]int, deliver func() error) error {
	a := &Ack{Ckpt: id, Worker: w.idx, Kind: kind, Positions: positions, release: make(chan bool, 1)}
	c.mu.Lock()
	hold := c.hold
	if hold {
		c.parked = append(c.parked, a)
	}
	c.mu.Unlock()
	c.log.add(func(l *Log) {
		l.Acks = append(l.Acks, AckObs{Ckpt: id, Worker: w.idx, Kind: kind, Positions: positions})
	})
	if hold {
		select {
		case ok := <-a.release:
			if !ok {
				return errDropped
			}
		case <-w.dead:
			c.mu.Lock()
			for i, p := range c.parked {
				if p == a {
					c.parked = append(c.parked[:i:i], c.parked[i+1:]...)
					break
				}
			}
			c.mu.Unlock()
			return errDead
		}
	}
	if w.isDead() {
		return errDead
	}
	err := c.guard("job checkpoint acknowledgement", deliver)
	c.log.add(func(l *Log) {
		o := AckObs{Ckpt: id, Worker: w.idx, Kind: kind, Positions: positions, Delivered: err == nil}
		if err != nil {
			o.Err = err.Error()
		}
		l.Acks = append(l.Acks, o)
	})
	return err
}

func (c *Cluster) AwaitPublished(id uint64, timeout time.Duration) bool {
	return c.Await(func(l *Log) bool {
		for _, p := range l.Published {
			if p.ID == id && p.Done {
				return true
			}
		}
		return false
	}, timeout)
}

// TickWatermarks makes every live source runner emit a watermark now (stamped with its current event-time watermark when
// it is sent, i.e. after everything the runner has read so far). It returns when every live runner has taken its tick.
func (c *Cluster) TickWatermarks() bool {
	_, ok := c.TickWatermarksTimed()
	return ok
}

// TickWatermarksTimed is TickWatermarks reporting the longest time a runner took to accept its tick. The hand-over is a
// rendezvous with the runner's event loop: it waits for the event itself (no short deadline - a busy machine must not turn
// into a lost watermark); only a runner that does not take its tick for a minute, i.e. a hung one, makes it return false.
func (c *Cluster) TickWatermarksTimed() (time.Duration, bool) {
	c.mu.Lock()
	ws := append([]*worker{}, c.workers...)
	c.mu.Unlock()
	var slowest time.Duration
	ok := true
	for _, w := range ws {
		if w.isDead() {
			continue
		}
		if ch := w.wmTicks.Load(); ch != nil {
			t0 := time.Now()
			select {
			case *ch <- time.Now():
			case <-w.dead:
			case <-time.After(time.Minute):
				ok = false
			}
			if d := time.Since(t0); d > slowest {
				slowest = d
			}
		}
	}
	return slowest, ok
}

// AwaitCurrent waits (polling; liveness only) until the current job's in-memory latest checkpoint is at least id: the store
// records a publication a few instructions after the file write returned (which is what AwaitPublished observes).
func (c *Cluster) AwaitCurrent(id uint64, timeout time.Duration) bool {
	deadline := time.Now().Add(timeout)
	for {
		j := c.curJob()
		if j == nil {
			return false
		}
		if j.VerifCurrentCheckpointID() >= id {
			return true
		}
		if time.Now().After(deadline) {
			return false
		}
		time.Sleep(50 * time.Microsecond)
	}
}

// FireRunnerTimers fires only the source runners' pending batch time-outs (key-event fetch and per-operator send batches),
// not the operators' (their pending event batch stays pending).
func (c *Cluster) FireRunnerTimers() int {
	c.mu.Lock()
	ws := append([]*worker{}, c.workers...)
	c.mu.Unlock()
	n := 0
	for _, w := range ws {
		if !w.isDead() {
			n += w.srTimer.fire()
		}
	}
	return n
}

// FireTimers fires every pending batch time-out of every live worker; returns how many callbacks ran.
func (c *Cluster) FireTimers() int {
	c.mu.Lock()
	ws := append([]*worker{}, c.workers...)
	c.mu.Unlock()
	n := 0
	for _, w := range ws {
		if !w.isDead() {
			n += w.srTimer.fire()
			n += w.opTimer.fire()
		}
	}
	return n
}

// Await re-evaluates cond (under the log lock) after every observation; between observations it fires the virtual
// batch timers every 300us so that partially filled batches move. Returns false on timeout.
func (c *Cluster) Await(cond func(l *Log) bool, timeout time.Duration) bool {
	return c.await(cond, timeout, true)
}

// AwaitNoFlush is Await without firing batch timers.
func (c *Cluster) AwaitNoFlush(cond func(l *Log) bool, timeout time.Duration) bool {
	return c.await(cond, timeout, false)
}
func (c *Cluster) await(cond func(l *Log) bool, timeout time.Duration, flush bool) bool {
	deadline := time.Now().Add(timeout)
	for {
		ch := c.log.waitChan()
		ok := false
		c.log.with(func(l *Log) { ok = cond(l) })
		if ok {
			return true
		}
		if time.Now().After(deadline) {
			return false
		}
		select {
		case <-ch:
		case <-time.After(300 * time.Microsecond):
			if flush {
				c.FireTimers()
			}
		}
	}
}

// Log returns a deep-enough copy of the observations so far.
func (c *Cluster) Log() Log {
	var out Log
	c.log.with(func(l *Log) {
		out = Log{
			Invocations: append([]Invocation{}, l.Invocations...), Emissions: append([]Emission{}, l.Emissions...),
			Assignments: append([]Assignment{}, l.Assignments...), Restores: append([]Restore{}, l.Restores...),
			Acks: append([]AckObs{}, l.Acks...), Started: append([]uint64{}, l.Started...),
			Published: append([]Published{}, l.Published...), Deploys: append([]string{}, l.Deploys...), Tickers: append([]int64{}, l.Tickers...), DeployStarts: append([]DeployStart{}, l.DeployStarts...), DeployedFrom: append([]DeployedFrom{}, l.DeployedFrom...), Fires: append([]Fire{}, l.Fires...), Faults: append([]Fault{}, l.Faults...), Errors: append([]string{}, l.Errors...),
		}
	})
	return out
}

func (c *Cluster) Close() {
	c.mu.Lock()
	c.closed = true
	parked := c.parked
	c.parked = nil
	c.mu.Unlock()
	for _, a := range parked {
		select {
		case a.release <- false:
		default:
		}
	}
	live := c.LiveWorkers()
	c.KillAll()
	c.AwaitStopped(live, 2*time.Second)
	c.mu.Lock()
	c.job = nil
	c.mu.Unlock()
}

// ---------------------------------------------------------------- adapters

type jobAdapter struct {
	c *Cluster
	w *worker
}

func (a *jobAdapter) job() (*jobs.Job, error) {
	if a.w.isDead() {
		return nil, errDead
	}
	j := a.c.curJob()
	if j == nil {
		return nil, errNoJob
	}
	return j, nil
}
func (a *jobAdapter) RegisterSourceRunner(ctx context.Context, id *jobpb.NodeIdentity) error {
	j, err := a.job()
	if err != nil {
		return err
	}
	return a.c.guard("HandleRegisterSourceRunner", func() error { j.HandleRegisterSourceRunner(id); return nil })
}
func (a *jobAdapter) DeregisterSourceRunner(ctx context.Context, id *jobpb.NodeIdentity) error {
	j, err := a.job()
	if err != nil {
		return err
	}
	return a.c.guard("HandleDeregisterSourceRunner", func() error { j.HandleDeregisterSourceRunner(id); return nil })
}
func (a *jobAdapter) RegisterOperator(ctx context.Context, id *jobpb.NodeIdentity) error {
	j, err := a.job()
	if err != nil {
		return err
	}
	return a.c.guard("HandleRegisterOperator", func() error { j.HandleRegisterOperator(id); return nil })
}
func (a *jobAdapter) DeregisterOperator(ctx context.Context, id *jobpb.NodeIdentity) error {
	j, err := a.job()
	if err != nil {
		return err
	}
	return a.c.guard("HandleDeregisterOperator", func() error { j.HandleDeregisterOperator(id); return nil })
}
func (a *jobAdapter) OperatorCheckpointComplete(ctx context.Context, req *snapshotpb.OperatorCheckpoint) error {
	j, err := a.job()
	if err != nil {
		return err
	}
	return a.c.ack(a.w, "op", req.CheckpointId, nil, func() error { return j.HandleOperatorCheckpointComplete(ctx, req) })
}
func (a *jobAdapter) OnSourceRunnerCheckpointComplete(ctx context.Context, req *jobpb.SourceRunnerCheckpointCompleteRequest) error {
	j, err := a.job()
	if err != nil {
		return err
	}
	pos := map[int]int{}
	for _, st := range req.SplitStates {
		if sp, p, ok := decodeCursor(st); ok {
			pos[sp] = p
		}
	}
	return a.c.ack(a.w, "sr", req.CheckpointId, pos, func() error { return j.HandleSourceRunnerCheckpointComplete(ctx, req) })
}
func (a *jobAdapter) NotifySplitsFinished(ctx context.Context, srID string, splitIDs []string) error {
	j, err := a.job()
	if err != nil {
		return err
	}
	return j.HandleNotifySplitsFinished(srID, splitIDs)
}

// opAdapter is the client for operator `id` used by `sender` (a worker; nil when the job is the caller).
type opAdapter struct {
	c        *Cluster
	sender   *worker
	senderID string
	id, host string
}

func (a *opAdapter) ID() string   { return a.id }
func (a *opAdapter) Host() string { return a.host }
func (a *opAdapter) target() (*worker, error) {
	a.c.mu.Lock()
	w := a.c.byOpID[a.id]
	a.c.mu.Unlock()
	if w == nil || w.isDead() {
		return nil, errDead
	}
	if a.sender != nil && a.sender.isDead() {
		return nil, errDead
	}
	return w, nil
}

// call runs f against the target unless/until target or sender die (a crashed peer never answers).
func (a *opAdapter) call(what string, f func(w *worker) error) error {
	w, err := a.target()
	if err != nil {
		return err
	}
	done := make(chan error, 1)
	go func() { done <- a.c.guard(what, func() error { return f(w) }) }()
	var senderDead chan struct{}
	if a.sender != nil {
		senderDead = a.sender.dead
	}
	select {
	case err := <-done:
		return err
	case <-w.dead:
		return errDead
	case <-senderDead:
		return errDead
	}
}
func (a *opAdapter) HandleEventBatch(ctx context.Context, batch []*workerpb.Event) error {
	return a.call("Operator.HandleEvent", func(w *worker) error {
		for _, e := range batch {
			var err error
			for try := 0; try < 120000; try++ { // the RPC client retries Unavailable (operator still loading)
				err = w.op.HandleEvent(ctx, a.senderID, e)
				// only the operator's own "not ready" is retried: an Unavailable that comes back from further down (the
				// operator's acknowledgement to a dead job) must not make the event be delivered twice
				if err == nil || connect.CodeOf(err) != connect.CodeUnavailable || !strings.Contains(err.Error(), "operator not ready") || w.isDead() {
					break
				}
				select {
				case <-w.dead:
				case <-time.After(500 * time.Microsecond):
				}
			}
			if err != nil {
				return err
			}
		}
		return nil
	})
}
func (a *opAdapter) Deploy(ctx context.Context, req *workerpb.DeployOperatorRequest) error {
	return a.call("Operator.HandleDeploy", func(w *worker) error {
		c := a.c
		c.mu.Lock()
		first := !c.genOpen
		if first {
			c.gen.Add(1)
			c.genOpen = true
		}
		g := c.gen.Load()
		js := c.jobSeq
		c.mu.Unlock()
		if first {
			c.log.add(func(l *Log) { l.DeployStarts = append(l.DeployStarts, DeployStart{Seq: l.Seq, Gen: g}) })
		}
		if hk := c.opts.Hooks.OnDeploy; hk != nil {
			hk(g, w.opID, first)
		}
		err := w.op.HandleDeploy(ctx, req, &embedded.RecordingSink{})
		if err == nil {
			w.gen.Store(g)
			cks := make([]string, len(req.Checkpoints))
			for i, ck := range req.Checkpoints {
				cks[i] = fmt.Sprintf("%s@%d", ck.OperatorId, ck.CheckpointId)
			}
			sort.Strings(cks)
			from := make([]uint64, len(req.Checkpoints))
			for i, ck := range req.Checkpoints {
				from[i] = ck.CheckpointId
			}
			c.log.add(func(l *Log) {
				l.Deploys = append(l.Deploys, fmt.Sprintf("%d:%s:%d", g, w.opID, js))
				l.DeployedFrom = append(l.DeployedFrom, DeployedFrom{Seq: l.Seq, Gen: g, Operator: w.opID, CheckpointIDs: from})
			})
		} else {
			c.errorf("deploy of %s failed: %v", w.opID, err)
		}
		return err
	})
}
func (a *opAdapter) UpdateRetainedCheckpoints(ctx context.Context, ids []uint64) error {
	return a.call("Operator.HandleRemoveCheckpoints", func(w *worker) error {
		return w.op.HandleRemoveCheckpoints(ctx, &workerpb.UpdateRetainedCheckpointsRequest{CheckpointIds: ids})
	})
}
func (a *opAdapter) NeedsTable(ctx context.Context, uri string) (bool, error) {
	var res bool
	err := a.call("Operator.HandleNeedsTable", func(w *worker) error { res = w.op.HandleNeedsTable(uri); return nil })
	return res, err
}

type srAdapter struct {
	c        *Cluster
	id, host string
}

func (a *srAdapter) ID() string   { return a.id }
func (a *srAdapter) Host() string { return a.host }
func (a *srAdapter) target() (*worker, error) {
	a.c.mu.Lock()
	w := a.c.bySrID[a.id]
	a.c.mu.Unlock()
	if w == nil || w.isDead() {
		return nil, errDead
	}
	return w, nil
}
func (a *srAdapter) call(what string, f func(w *worker) error) error {
	w, err := a.target()
	if err != nil {
		return err
	}
	done := make(chan error, 1)
	go func() { done <- a.c.guard(what, func() error { return f(w) }) }()
	select {
	case err := <-done:
		return err
	case <-w.dead:
		return errDead
	}
}
func (a *srAdapter) Deploy(ctx context.Context, req *workerpb.DeploySourceRunnerRequest) error {
	return a.call("SourceRunner.HandleDeploy", func(w *worker) error { return w.sr.HandleDeploy(ctx, req) })
}
func (a *srAdapter) AssignSplits(ctx context.Context, splits []*workerpb.SourceSplit) error {
	return a.call("SourceRunner.HandleAssignSplits", func(w *worker) error { return w.sr.HandleAssignSplits(splits) })
}
func (a *srAdapter) StartCheckpoint(ctx context.Context, id uint64) error {
	return a.call("SourceRunner.HandleStartCheckpoint", func(w *worker) error {
		a.c.mu.Lock()
		key := fmt.Sprintf("%d:%d", a.c.jobSeq, id) // ids restart when a new job finds no checkpoint
		fresh := !a.c.started[key]
		a.c.started[key] = true
		a.c.mu.Unlock()
		if fresh {
			a.c.log.add(func(l *Log) { l.Started = append(l.Started, id) })
		}
		w.sr.HandleStartCheckpoint(ctx, id)
		a.c.opts.Script.Poke()
		return nil
	})
}

// ---------------------------------------------------------------- reference handler

const stateNS = "r"

type refHandler struct {
	c *Cluster
	w *worker
}

func (h *refHandler) KeyEventBatch(ctx context.Context, events [][]byte) ([][]*handlerpb.KeyedEvent, error) {
	out := make([][]*handlerpb.KeyedEvent, len(events))
	for i, e := range events {
		r, err := DecodeRecord(e)
		if err != nil {
			return nil, err
		}
		out[i] = []*handlerpb.KeyedEvent{{Key: r.Key, Value: e, Timestamp: timestamppb.New(time.Unix(r.TS, 0))}}
	}
	return out, nil
}

const sumID = 0xFFFFFFF0 // pseudo id under which the summary entry travels inside the handler (never logged in Given)
const firedNS = "f"

type keyState struct {
	recs  map[uint32]Entry
	fired map[int64]uint32
}

func decodeKeyState(ks *handlerpb.KeyState) *keyState {
	st := &keyState{recs: decodeEntries(ks), fired: map[int64]uint32{}}
	for _, ns := range ks.GetStateEntryNamespaces() {
		if ns.Namespace != firedNS {
			continue
		}
		for _, e := range ns.Entries {
			if len(e.Key) == 8 && len(e.Value) == 1 {
				st.fired[int64(binary.BigEndian.Uint64(e.Key))] += uint32(e.Value[0])
			} else {
				st.fired[-1] = 99
			}
		}
	}
	return st
}

func sortedFired(m map[int64]uint32) []Fired {
	out := make([]Fired, 0, len(m))
	for ts, c := range m {
		out = append(out, Fired{TS: ts, Count: c})
	}
	sort.Slice(out, func(i, j int) bool { return out[i].TS < out[j].TS })
	return out
}

func decodeEntries(ks *handlerpb.KeyState) map[uint32]Entry {
	m := map[uint32]Entry{}
	for _, ns := range ks.GetStateEntryNamespaces() {
		if ns.Namespace != stateNS {
			continue
		}
		for _, e := range ns.Entries {
			if len(e.Key) == 1 && e.Key[0] == 's' && len(e.Value) == 4 {
				m[sumID] = Entry{ID: sumID, Count: binary.BigEndian.Uint32(e.Value)}
				continue
			}
			if len(e.Key) != 4 || len(e.Value) != 5 {
				m[0xFFFFFFFF] = Entry{ID: 0xFFFFFFFF, Count: 99} // malformed entry: visible as a foreign record
				continue
			}
			id := binary.BigEndian.Uint32(e.Key)
			prev := m[id]
			m[id] = Entry{ID: id, Count: prev.Count + uint32(e.Value[0]), Ord: binary.BigEndian.Uint32(e.Value[1:])}
		}
	}
	return m
}
func sortedEntries(m map[uint32]Entry) []Entry {
	out := make([]Entry, 0, len(m))
	for _, e := range m {
		out = append(out, e)
	}
	sort.Slice(out, func(i, j int) bool { return out[i].ID < out[j].ID })
	return out
}

func put(key, val []byte) *handlerpb.StateMutation {
	return &handlerpb.StateMutation{Mutation: &handlerpb.StateMutation_Put{Put: &handlerpb.PutMutation{Key: key, Value: val}}}
}

func (h *refHandler) ProcessEventBatch(ctx context.Context, req *handlerpb.ProcessEventBatchRequest) (*handlerpb.ProcessEventBatchResponse, error) {
	if h.w.isDead() {
		return nil, errDead
	}
	states := map[string]*keyState{}
	for _, ks := range req.KeyStates {
		states[string(ks.Key)] = decodeKeyState(ks)
	}
	touched := map[string]bool{}
	type result struct {
		recMuts, firedMuts []*handlerpb.StateMutation
		timers             []*timestamppb.Timestamp
	}
	results := map[string]*result{}
	var order []string
	res := func(k string) *result {
		if results[k] == nil {
			results[k] = &result{}
			order = append(order, k)
		}
		return results[k]
	}
	state := func(k string) *keyState {
		st, ok := states[k]
		if !ok {
			st = &keyState{recs: map[uint32]Entry{0xFFFFFFFE: {ID: 0xFFFFFFFE, Count: 98}}, fired: map[int64]uint32{}} // no KeyState supplied: visible
			states[k] = st
		}
		return st
	}
	for _, ev := range req.Events {
		if te := ev.GetTimerExpired(); te != nil {
			// a timer fires: its effect on keyed state is one more firing recorded under its timestamp
			k := string(te.Key)
			st := state(k)
			ts := te.Timestamp.AsTime().Unix()
			st.fired[ts]++
			key := make([]byte, 8)
			binary.BigEndian.PutUint64(key, uint64(ts))
			res(k).firedMuts = append(res(k).firedMuts, put(key, []byte{byte(st.fired[ts])}))
			fire := Fire{Gen: h.w.gen.Load(), Worker: h.w.idx, Key: append([]byte{}, te.Key...), TS: ts, Count: st.fired[ts]}
			h.c.log.add(func(l *Log) { l.Fires = append(l.Fires, fire) })
			continue
		}
		ke := ev.GetKeyedEvent()
		if ke == nil {
			continue
		}
		r, err := DecodeRecord(ke.Value)
		if err != nil {
			return nil, err
		}
		if r.Marker {
			continue
		}
		if hk := h.c.opts.Hooks.BeforeApply; hk != nil {
			hk(h.w.idx, r)
		}
		if h.w.isDead() {
			return nil, errDead
		}
		k := string(ke.Key)
		st := state(k)
		sum := st.recs[sumID]
		delete(st.recs, sumID)
		inv := Invocation{Gen: h.w.gen.Load(), Worker: h.w.idx, Key: append([]byte{}, ke.Key...), Rec: r.ID, Probe: r.Probe, First: !touched[k],
			Given: sortedEntries(st.recs), Fired: sortedFired(st.fired), Sum: int64(sum.Count)}
		touched[k] = true
		if !r.Probe {
			sum = Entry{ID: sumID, Count: sum.Count + 1}
			sval := make([]byte, 4)
			binary.BigEndian.PutUint32(sval, sum.Count)
			rs := res(k)
			rs.recMuts = append(rs.recMuts, put([]byte{'s'}, sval))
			e := st.recs[r.ID]
			if e.Count == 0 {
				e = Entry{ID: r.ID, Ord: uint32(len(st.recs))}
			}
			e.Count++
			st.recs[r.ID] = e
			key := make([]byte, 4)
			binary.BigEndian.PutUint32(key, r.ID)
			val := make([]byte, 5)
			val[0] = byte(e.Count)
			binary.BigEndian.PutUint32(val[1:], e.Ord)
			rs.recMuts = append(rs.recMuts, put(key, val))
			if r.Timer > 0 {
				rs.timers = append(rs.timers, timestamppb.New(time.Unix(r.Timer, 0)))
			}
		}
		if sum.Count > 0 {
			st.recs[sumID] = sum
		}
		h.c.log.add(func(l *Log) { inv.Seq = l.Seq; l.Invocations = append(l.Invocations, inv) })
	}
	resp := &handlerpb.ProcessEventBatchResponse{}
	for _, k := range order {
		rs := results[k]
		kr := &handlerpb.KeyResult{Key: []byte(k), NewTimers: rs.timers}
		if len(rs.recMuts) > 0 {
			kr.StateMutationNamespaces = append(kr.StateMutationNamespaces, &handlerpb.StateMutationNamespace{Namespace: stateNS, Mutations: rs.recMuts})
		}
		if len(rs.firedMuts) > 0 {
			kr.StateMutationNamespaces = append(kr.StateMutationNamespaces, &handlerpb.StateMutationNamespace{Namespace: firedNS, Mutations: rs.firedMuts})
		}
		resp.KeyResults = append(resp.KeyResults, kr)
	}
	return resp, nil
}
