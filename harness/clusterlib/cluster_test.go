package clusterlib

import (
	"fmt"
	"os"
	"testing"
	"time"
)

// test directories are removed only when the test binary ends (see TestMain): databases of killed workers are never closed
var testRoot string

func testDir() string {
	d, _ := os.MkdirTemp(testRoot, "case-")
	return d
}

func TestMain(m *testing.M) {
	testRoot, _ = os.MkdirTemp("/dev/shm", "clusterlib-")
	code := m.Run()
	os.RemoveAll(testRoot)
	os.Exit(code)
}

func mkScript(splits, per, keys int) *Script {
	var sp [][]Record
	id := uint32(1)
	for s := 0; s < splits; s++ {
		var rs []Record
		for i := 0; i < per; i++ {
			rs = append(rs, Record{ID: id, Key: []byte(fmt.Sprintf("k%d", int(id)%keys))})
			id++
		}
		sp = append(sp, rs)
	}
	return NewScript(sp)
}

func applied(l *Log, gen int64) map[uint32]int {
	m := map[uint32]int{}
	for _, iv := range l.Invocations {
		if iv.Gen == gen && !iv.Probe {
			m[iv.Rec]++
		}
	}
	return m
}

// all records emitted by readers of generation gen were applied in generation gen
func drained(gen int64) func(l *Log) bool {
	return func(l *Log) bool {
		ap := applied(l, gen)
		n := 0
		for _, e := range l.Emissions {
			if e.Gen != gen {
				continue
			}
			for _, id := range e.IDs {
				n++
				if ap[id] == 0 {
					return false
				}
			}
		}
		return n > 0
	}
}

func TestSmokeFullRestart(t *testing.T) {
	dir := testDir()
	sc := mkScript(3, 10, 4)
	t0 := time.Now()
	c, err := New(Options{Dir: dir, Workers: 2, KeyGroups: 8, OpBatch: 3, SrBatch: 2, ReadBatch: 2, Script: sc})
	if err != nil {
		t.Fatal(err)
	}
	defer c.Close()
	c.StartWorkers(2)
	if !c.AwaitRunning(0, 5*time.Second) {
		t.Fatalf("not running: %+v", c.Log().Errors)
	}
	for i := 0; i < 3; i++ {
		sc.Allow(i, 5)
	}
	if !c.Await(drained(1), 5*time.Second) {
		t.Fatalf("not drained: %+v", c.Log())
	}
	if err := c.TriggerCheckpoint(); err != nil {
		t.Fatal(err)
	}
	if !c.AwaitPublished(1, 5*time.Second) {
		l := c.Log()
		t.Fatalf("not published: acks=%+v errors=%+v", l.Acks, l.Errors)
	}
	for i := 0; i < 3; i++ {
		sc.Allow(i, 2)
	}
	c.Await(drained(1), 5*time.Second)
	if err := c.RestartJob(3); err != nil {
		t.Fatal(err)
	}
	c.StartWorkers(3)
	if !c.AwaitRunning(1, 5*time.Second) {
		t.Fatalf("not running again: %+v", c.Log().Errors)
	}
	sc.AllowAll()
	ok := c.Await(func(l *Log) bool {
		pos := map[int]int{}
		for _, e := range l.Emissions {
			if e.Gen == 2 && e.To > pos[e.Split] {
				pos[e.Split] = e.To
			}
		}
		for i := 0; i < 3; i++ {
			if pos[i] < 10 {
				return false
			}
		}
		return drained(2)(l)
	}, 5*time.Second)
	l := c.Log()
	t.Logf("elapsed %v ok=%v invocations=%d published=%+v restores=%+v errors=%v", time.Since(t0), ok, len(l.Invocations), l.Published, l.Restores, l.Errors)
	if !ok {
		t.Fatalf("second generation did not drain")
	}
	// every record applied exactly once in its final effective history: check via given states of gen 2
	last := map[string][]Entry{}
	for _, iv := range l.Invocations {
		if iv.Gen == 2 {
			g := append([]Entry{}, iv.Given...)
			g = append(g, Entry{ID: iv.Rec, Count: 1})
			last[string(iv.Key)] = g
		}
	}
	total := 0
	for k, es := range last {
		for _, e := range es {
			if e.Count != 1 {
				t.Errorf("key %s record %d count %d", k, e.ID, e.Count)
			}
		}
		total += len(es)
	}
	if total != 30 {
		t.Errorf("final state holds %d records, want 30: %+v", total, last)
	}
}
