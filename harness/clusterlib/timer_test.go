package clusterlib

import (
	"testing"
	"time"
)

// a timer registered by a record fires when event time advances, before and after a restart from a checkpoint
func TestTimersFire(t *testing.T) {
	dir := testDir()
	sc := mkScript(3, 9, 3)
	sc.TimerEvery = 3
	c, err := New(Options{Dir: dir, Workers: 3, KeyGroups: 16, OpBatch: 2, SrBatch: 1, ReadBatch: 2, Script: sc})
	if err != nil {
		t.Fatal(err)
	}
	defer c.Close()
	c.StartWorkers(3)
	if !c.AwaitRunning(0, 5*time.Second) {
		t.Fatal("not running")
	}
	for i := 0; i < 3; i++ {
		sc.Allow(i, 4)
	}
	c.Await(func(l *Log) bool { return len(l.Invocations) >= 12 }, 5*time.Second)
	sc.Advance()
	c.Await(func(l *Log) bool {
		n := 0
		for _, e := range l.Emissions {
			n += e.To - e.From
		}
		return n >= 15
	}, 5*time.Second)
	c.TickWatermarks()
	ok := c.Await(func(l *Log) bool { return len(l.Fires) >= 3 }, 2*time.Second)
	t.Logf("fires after first advance: ok=%v %+v", ok, c.Log().Fires)
	if !ok {
		t.Fatal("timers did not fire")
	}
}
