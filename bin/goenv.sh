# sourced by scripts: Go environment that works offline for /repo (go.mod says go 1.24; cached toolchain go1.24.0)
export GOFLAGS=-mod=mod
export GOPROXY=off
unset GOTOOLCHAIN GOSUMDB
