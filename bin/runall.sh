#!/bin/bash
# runall.sh [quick|thorough] [ids...] : run the registered checks one after another, print a summary table.
HERE=$(cd "$(dirname "$0")/.." && pwd); cd "$HERE"
TIER=${1:-quick}; shift || true
IDS=${@:-$(ls props | sed 's/.json//' | sort)}
mkdir -p .scratch/runall
for id in $IDS; do
  s=$(date +%s)
  bin/check $id --tier $TIER > .scratch/runall/$id.log 2>&1; rc=$?
  e=$(date +%s)
  printf "%s rc=%d %4ds %s\n" $id $rc $((e-s)) "$(grep -E '^VIOLATION|^KNOWN-FINDING|PASS' .scratch/runall/$id.log | tr '\n' ' ' | cut -c1-200)"
done
