#!/bin/bash
# regenerate coq/_CoqProject + Makefile from the .v files present (cases/ and scratch excluded)
set -euo pipefail
HERE=$(cd "$(dirname "$0")/.." && pwd)
cd "$HERE/coq"
{ echo "-Q . RV"; echo "-arg -w -arg -notation-overridden,-deprecated-hint-without-locality,-deprecated-instance-without-locality,-ambiguous-paths"; find Base Model Proofs Props Corr -name '*.v' 2>/dev/null | sort; } > _CoqProject.new
if ! cmp -s _CoqProject.new _CoqProject 2>/dev/null; then mv _CoqProject.new _CoqProject; coq_makefile -f _CoqProject -o Makefile >/dev/null; else rm _CoqProject.new; [ -f Makefile ] || coq_makefile -f _CoqProject -o Makefile >/dev/null; fi
