#!/usr/bin/env python3
"""harmless_cross.py [-j N] [names...] : run every harmless change against every check whose property is anchored in (or runs through)
the directories the change touches, not only the property it was written for. Writes harmless/<name>/cross.json; prints alarms.
A scratch worktree per (change) under /tmp/mut, removed afterwards; /repo itself is never touched."""
import json, os, re, subprocess, sys, threading, time, concurrent.futures as cf
GITLOCK = threading.Lock()
HERE = os.path.dirname(os.path.dirname(os.path.abspath(__file__)))
AREA = [
    (r"^dkv/", "C01 C03 C06 C07 C08 C09 C10 C14 C17 C18"),
    (r"^workers/operator/", "C01 C02 C03 C05 C06 C10 C11 C15"),
    (r"^workers/sourcerunner/|^workers/wmark/", "C01 C04 C05 C11 C16"),
    (r"^storage/", "C01 C12 C13 C14 C15"),
    (r"^jobs/", "C01 C12 C13 C14 C15 C16"),
    (r"^batching/|^clocks/", "C02 C04 C20"),
    (r"^util/ds/|^util/iteru/", "C10 C19 C18"),
    (r"^util/murmur/|^partitioning/", "C01 C05 C06"),
    (r"^connectors/", "C04 C16"),
]
def checks_for(name):
    d = os.path.join(HERE, "harmless", name)
    m = json.load(open(os.path.join(d, "meta.json")))
    files = re.findall(r"^diff --git a/(\S+)", open(os.path.join(d, "patch.diff")).read(), re.M)
    cs = {m["property"]}
    for f in files:
        for pat, props in AREA:
            if re.search(pat, f): cs |= set(props.split())
    return sorted(cs)
def run(name):
    d = os.path.join(HERE, "harmless", name)
    w = "/tmp/mut/hx-%s-%d" % (name, os.getpid())
    with GITLOCK:
        for attempt in range(5):
            if subprocess.run(["git", "-C", "/repo", "worktree", "add", "-q", "--detach", w, "HEAD"]).returncode == 0: break
            time.sleep(2)
        else:
            return name, {"error": {"rc": 2, "what": "git worktree add failed"}}
    res = {}
    try:
        if subprocess.run(["git", "-C", w, "apply", os.path.join(d, "patch.diff")]).returncode != 0:
            return name, {"error": "patch does not apply"}
        for c in checks_for(name):
            log = os.path.join(d, "last_%s.log" % c)
            env = dict(os.environ, VERIF_REPO=w, VERIF_SEED=os.environ.get("VERIF_SEED", "1"))
            with open(log, "w") as f:
                rc = subprocess.run([os.path.join(HERE, "bin/check"), c, "--tier", "quick"], stdout=f, stderr=subprocess.STDOUT, env=env, cwd=HERE).returncode
            t = open(log).read()
            vio = [l for l in t.splitlines() if l.startswith("VIOLATION")]
            kinds = sorted(set(re.findall(r"^\[check %s\] (spec|model|tie|proof|static-gate): " % c, t, re.M)))
            res[c] = {"rc": rc, "violation": vio[:1], "kinds": kinds}
    finally:
        with GITLOCK:
            subprocess.run(["git", "-C", "/repo", "worktree", "remove", "--force", w])
    json.dump({"name": name, "results": res, "quiet": all(r["rc"] == 0 for r in res.values())}, open(os.path.join(d, "cross.json"), "w"), indent=1)
    return name, res
if __name__ == "__main__":
    a = sys.argv[1:]; j = 3
    if a and a[0] == "-j": j = int(a[1]); a = a[2:]
    names = a or sorted(os.listdir(os.path.join(HERE, "harmless")))
    with cf.ThreadPoolExecutor(j) as ex:
        for name, res in ex.map(run, names):
            bad = {c: r for c, r in res.items() if isinstance(r, dict) and r.get("rc")}
            print(name, "quiet" if not bad else "ALARM " + json.dumps(bad), flush=True)
