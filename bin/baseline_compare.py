#!/usr/bin/env python3
"""Run the pinned baseline (guard off, no overlay) and compare with /root/.vp/BASELINE.json stable_pass."""
import json, subprocess, os, sys
env = dict(os.environ); env["GOFLAGS"] = "-mod=mod"; env["GOPROXY"] = "off"; env.pop("GOTOOLCHAIN", None); env.pop("GOSUMDB", None)
p = subprocess.run("go test -json -vet=off -count=1 -timeout 25m ./...", shell=True, cwd="/repo", env=env, capture_output=True, text=True)
passed, failed = set(), set()
for line in p.stdout.splitlines():
    try: e = json.loads(line)
    except Exception: continue
    if e.get("Test") and e.get("Action") in ("pass", "fail"):
        (passed if e["Action"] == "pass" else failed).add("%s::%s" % (e["Package"], e["Test"]))
base = set(json.load(open("/root/.vp/BASELINE.json"))["stable_pass"])
missing = sorted(base - passed)
print("baseline %d, passed now %d, baseline tests not passing now: %d" % (len(base), len(passed), len(missing)))
for m in missing: print("  MISSING", m, "(FAILED)" if m in failed else "")
extra_fail = sorted(failed - base)
for f in extra_fail: print("  failing (not in baseline):", f)
sys.exit(1 if missing else 0)
