#!/bin/bash
# import_mut.sh <mutdir> <prefix> : copy <mutdir>/out/k/* to seeded/<prefix>-k, verify each (bin/verify_seed.sh) and run the checks (bin/seeded.sh)
HERE=$(cd "$(dirname "$0")/.." && pwd); cd "$HERE"
D=$1; P=$2; names=""
for k in 1 2 3 4 5; do
  src=$D/out/$k; [ -f $src/patch.diff ] || continue
  dst=seeded/$P-$k; mkdir -p $dst; cp $src/patch.diff $src/demo_test.go $src/meta.json $dst/
  names="$names $P-$k"
done
for n in $names; do
  r=$(bin/verify_seed.sh seeded/$n 2>&1 | grep -E "^CONFIRMED|^REJECTED|DOES NOT" | head -1)
  python3 - <<PY
import json
p='seeded/$n/meta.json'; m=json.load(open(p)); m['verified']="$r"; json.dump(m,open(p,'w'),indent=1)
PY
  echo "$n verify: $r"
done
bin/seeded.sh $names
