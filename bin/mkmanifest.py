#!/usr/bin/env python3
"""Regenerate MANIFEST.json from props/*.json (one fragment per claimed property) and properties.jsonl."""
import json, os, glob, subprocess
HERE = os.path.dirname(os.path.dirname(os.path.abspath(__file__)))
props = [json.loads(l) for l in open(os.path.join(HERE, "properties.jsonl"))]
cfgs = {}
for f in sorted(glob.glob(os.path.join(HERE, "props", "C*.json"))):
    c = json.load(open(f)); cfgs[c["id"]] = c
hooks = []
try:
    out = subprocess.run(["git", "-C", "/repo", "log", "--format=%H %s"], capture_output=True, text=True).stdout
    hooks = [l.split()[0] for l in out.splitlines() if "verif hook" in l]
except Exception:
    pass
checks, na, engines = [], [], {}
for p in props:
    pid = p["id"]
    c = cfgs.get(pid)
    if not c or c.get("unclaimed"):
        na.append({"property_id": pid, "reason": (c or {}).get("unclaimed", "no check built yet in this development (work in progress, see DESIGN.md section 7)")})
        continue
    for e in c["engines"]:
        engines.setdefault(e["name"], set()).add(pid)
    checks.append({
        "property_id": pid,
        "quick_cmd": "bin/check %s --tier quick" % pid,
        "thorough_cmd": "bin/check %s --tier thorough" % pid,
        "evidence_file": "evidence/%s.json" % pid,
        "replay_cmd_template": "bin/check %s --replay {path}" % pid,
        "engine": ",".join(sorted({e["name"] for e in c["engines"]})),
        "level_claimed": {"category": "proof", "text": c.get("level_text", ""), "design_ref": c.get("design_ref", "DESIGN.md section 7, " + pid)},
        "level_note": c.get("level_note", ""),
        "technique": c.get("technique", "Coq 8.16 theorems about a hand-written Gallina model + differential correspondence check (vm_compute) against the real code"),
    })
m = {
    "version": 1,
    "setup_cmd": "bin/setup.sh",
    "hooks": {"guard": "verif", "enable": "go build -tags verif (harness engines are built with -tags verif and a go -overlay supplying the regenerated protobuf code)",
              "baseline_off_cmd": "bin/baseline_off.sh", "source_commits": hooks, "add_only": True},
    "engines": [{"name": n, "path": "harness/cmd/" + n, "serves_properties": sorted(s), "kind_free_text": "Go harness engine driving the real code; output evaluated against the Coq model by coqc"} for n, s in sorted(engines.items())],
    "checks": checks,
    "not_applicable": na,
    "notes": "Machine-checked proof in Coq 8.16.1; see DESIGN.md. KNOWN_FINDINGS.txt lists findings/fixes.",
}
json.dump(m, open(os.path.join(HERE, "MANIFEST.json"), "w"), indent=1)
print("MANIFEST.json: %d checks, %d not claimed" % (len(checks), len(na)))
