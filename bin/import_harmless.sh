#!/bin/bash
# import_harmless.sh <mutdir> <prefix> : copy <mutdir>/out/k/{patch.diff,meta.json} to harmless/<prefix>-k and run bin/harmless.sh on them
HERE=$(cd "$(dirname "$0")/.." && pwd); cd "$HERE"
D=$1; P=$2; names=""
for k in 1 2 3 4 5; do
  src=$D/out/$k; [ -f $src/patch.diff ] || continue
  dst=harmless/$P-$k; mkdir -p $dst; cp $src/patch.diff $src/meta.json $dst/
  names="$names $P-$k"
done
[ -n "$names" ] && bin/harmless.sh $names
