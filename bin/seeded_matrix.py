#!/usr/bin/env python3
"""Write docs/SEEDED.md: one row per seeded change with what it needs and which checks catch it."""
import json, glob, os
HERE = os.path.dirname(os.path.dirname(os.path.abspath(__file__)))
rows = []
for d in sorted(glob.glob(os.path.join(HERE, "seeded", "*"))):
    mp, rp = os.path.join(d, "meta.json"), os.path.join(d, "result.json")
    if not os.path.exists(mp): continue
    m = json.load(open(mp)); r = json.load(open(rp)) if os.path.exists(rp) else {}
    res = " ".join(r.get("results", []))
    codes = ""
    lp = os.path.join(d, "last_%s.log" % m["property"])
    if os.path.exists(lp):
        import re
        t = open(lp).read()
        mm = re.search(r"codes (\[[^\]]*\])", t)
        codes = mm.group(1) if mm else ("panic/hang" if "panicked" in t or "no progress" in t else "")
    rows.append((os.path.basename(d), m["property"], m.get("summary", "").replace("|", "/")[:230], m.get("needs", "").replace("|", "/")[:200],
                 ("yes" if r.get("caught_with_failing_input", True) else "yes (model disagreement only, no-failing-input-found)") if r.get("caught_by_own_property") else ("not run" if (not r or r.get("stale")) else "NO"), res, codes, m.get("verified", "")))
with open(os.path.join(HERE, "docs", "SEEDED.md"), "w") as f:
    f.write("# Seeded changes (written by independent sub-agents from the property text alone) and which checks catch them\n\n")
    f.write("Each row: a change to reduction-dev/reduction that compiles, keeps the pinned suite green and breaks the property; confirmed by `bin/verify_seed.sh` (demo passes without / fails with the change; suite passes with it) and run by `bin/seeded.sh` (quick tier, seed 1) in a scratch worktree.\n\n")
    f.write("| id | property | change | needs | caught by its own check | all results (check:exit) | codes |\n|---|---|---|---|---|---|---|\n")
    for r in rows:
        f.write("| %s | %s | %s | %s | %s | %s | %s |\n" % r[:7])
    n = len(rows); c = sum(1 for r in rows if r[4].startswith("yes")); ci = sum(1 for r in rows if r[4] == "yes"); nr = sum(1 for r in rows if r[4] == "not run")
    f.write("\n%d seeded changes; %d caught by the check of the property they were written against (%d of them with a concrete input that violates the specification predicate, the rest as a disagreement between implementation and model reported with no-failing-input-found); %d not run (their patch no longer applies because a later fix commit rewrote the lines).\n" % (n, c, ci, nr))
print("docs/SEEDED.md written")
