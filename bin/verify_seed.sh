#!/bin/bash
# verify_seed.sh <seeded-dir> : confirm a seeded change: (1) applies to /repo HEAD, (2) pinned suite still passes with it,
# (3) its demonstration fails with the change and passes without. Uses a scratch worktree, removed afterwards.
set -uo pipefail
HERE=$(cd "$(dirname "$0")/.." && pwd)
S=$(cd "$1" && pwd); N=verify-$(basename $S)-$$
D=/tmp/mut/$N; mkdir -p $D
git -C /repo worktree add -q --detach $D/repo HEAD
trap 'git -C /repo worktree remove --force $D/repo; rm -rf $D' EXIT
VERIF_REPO=$D/repo "$HERE/bin/pbgen.sh" $D/pb >/dev/null
. "$HERE/bin/goenv.sh"
meta=$S/meta.json
demo_file=$(python3 -c "import json;print(json.load(open('$meta'))['demo']['file'])")
demo_src=$(python3 -c "import json;print(json.load(open('$meta'))['demo'].get('source','demo_test.go'))")
demo_pkg=$(python3 -c "import json;print(json.load(open('$meta'))['demo']['pkg'])")
demo_run=$(python3 -c "import json;print(json.load(open('$meta'))['demo']['run'])")
cd $D/repo
cp $S/$demo_src $demo_file
echo "== demo WITHOUT the change (must pass)"
go test -vet=off -count=1 -overlay $D/pb/overlay.json -run "$demo_run" $demo_pkg 2>&1 | tail -3; r0=${PIPESTATUS[0]}
git apply $S/patch.diff || { echo "PATCH DOES NOT APPLY"; exit 3; }
echo "== build + demo WITH the change (must fail)"
go build -overlay $D/pb/overlay.json ./... || { echo "DOES NOT COMPILE"; exit 4; }
go test -vet=off -count=1 -overlay $D/pb/overlay.json -run "$demo_run" $demo_pkg 2>&1 | tail -5; r1=${PIPESTATUS[0]}
rm -f $demo_file
echo "== pinned suite WITH the change"
python3 - <<PY
import json, subprocess, os, sys
env=dict(os.environ)
p=subprocess.run("go test -json -vet=off -count=1 -timeout 25m ./...",shell=True,cwd="$D/repo",env=env,capture_output=True,text=True)
passed=set()
for l in p.stdout.splitlines():
    try:e=json.loads(l)
    except Exception: continue
    if e.get("Test") and e.get("Action")=="pass": passed.add("%s::%s"%(e["Package"],e["Test"]))
base=set(json.load(open("/root/.vp/BASELINE.json"))["stable_pass"])
miss=sorted(base-passed)
print("baseline tests not passing with the change:",len(miss),miss[:5])
open("$D/suite_rc","w").write("0" if not miss else "1")
PY
r2=$(cat $D/suite_rc)
echo "RESULT demo_without=$r0 (want 0) demo_with=$r1 (want !=0) suite=$r2 (want 0)"
if [ "$r0" = 0 ] && [ "$r1" != 0 ] && [ "$r2" = 0 ]; then echo CONFIRMED; exit 0; else echo REJECTED; exit 1; fi
