#!/bin/bash
# seeded_all.sh [P] : run every seeded change through its checks, P at a time (default 4); then regenerate docs/SEEDED.md
HERE=$(cd "$(dirname "$0")/.." && pwd); cd "$HERE"
P=${1:-4}
ls seeded | xargs -P $P -I{} sh -c 'bin/seeded.sh {} 2>&1 | tail -1'
python3 bin/seeded_matrix.py
