#!/bin/bash
# mkmutwt.sh <name> : scratch worktree of /repo HEAD at /tmp/mut/<name>/repo with regenerated protobuf overlay at /tmp/mut/<name>/pb/overlay.json
set -euo pipefail
HERE=$(cd "$(dirname "$0")/.." && pwd)
N=$1; D=/tmp/mut/$N
mkdir -p $D
git -C /repo worktree add -q --detach $D/repo HEAD
VERIF_REPO=$D/repo "$HERE/bin/pbgen.sh" $D/pb >/dev/null
cat > $D/README.txt <<R
Scratch worktree of the repository: $D/repo   (git; commit nothing upstream)
Most packages (workers/, jobs/, storage/snapshots, partitioning, connectors, e2e) need generated protobuf code that is not in the
repository. It has been generated for you outside the tree; pass the overlay to every go command that touches those packages:
  cd $D/repo && export GOFLAGS=-mod=mod GOPROXY=off && go build -overlay $D/pb/overlay.json ./... && go test -vet=off -count=1 -overlay $D/pb/overlay.json ./<pkg>/...
The pinned test suite the change must keep passing is (no overlay; only packages that build without generated code run):
  cd $D/repo && export GOFLAGS=-mod=mod GOPROXY=off && go test -vet=off -count=1 ./... 2>&1 | grep -v 'setup failed\|no test files\|cannot find module\|finding module\|^#'
(packages reporting "setup failed" are expected; every package that reports ok before your change must still report ok after it.)
The sandbox is offline. Do not set GOTOOLCHAIN or GOSUMDB.
R
echo $D
