#!/bin/bash
# harmless.sh [names...] : for every harmless/<name>/patch.diff (a behaviour-preserving change written by an independent agent) make a
# scratch worktree of /repo HEAD with the patch applied, run the quick check of the property against THAT tree (VERIF_REPO) and record
# in harmless/<name>/result.json whether the check stayed quiet (rc=0, no VIOLATION). An alarm here is a false alarm unless the change
# turns out not to be harmless (adjudicated by hand, recorded in meta.json "adjudication").
set -u
HERE=$(cd "$(dirname "$0")/.." && pwd); cd "$HERE"
NAMES=${@:-$(ls harmless)}
for n in $NAMES; do
  d=harmless/$n; [ -f $d/patch.diff ] || continue
  checks=$(python3 -c "import json;m=json.load(open('$d/meta.json'));print(' '.join([m['property']]+m.get('also_checks',[])))")
  W=/tmp/mut/harmless-$n-$$; mkdir -p /tmp/mut
  git -C /repo worktree add -q --detach $W HEAD
  if ! git -C $W apply $HERE/$d/patch.diff 2>/dev/null; then echo "$n: patch does not apply to HEAD"; git -C /repo worktree remove --force $W; continue; fi
  res=""; quiet=true
  for c in $checks; do
    VERIF_REPO=$W VERIF_SEED=${VERIF_SEED:-1} bin/check $c --tier ${TIER:-quick} > $d/last_$c.log 2>&1; rc=$?
    res="$res $c:rc=$rc"; [ $rc = 0 ] || quiet=false
    grep -q "^VIOLATION" $d/last_$c.log && quiet=false
  done
  git -C /repo worktree remove --force $W
  python3 - <<PY
import json
json.dump({"name":"$n","results":"$res".split(),"quiet":"$quiet"=="true"},open("$d/result.json","w"),indent=1)
PY
  echo "$n:$res quiet=$quiet"
done
