#!/bin/bash
# usage: pbgen.sh <outdir>   -- regenerate *.pb.go/*.connect.go from /repo's current .proto files into <outdir>, write <outdir>/overlay.json
set -euo pipefail
HERE=$(cd "$(dirname "$0")/.." && pwd)
. "$HERE/bin/goenv.sh"
REPO=${VERIF_REPO:-/repo}
OUT=$1
B=$HERE/.build
mkdir -p "$B" "$OUT"
if [ ! -x "$B/protoc-gen-go" ]; then (cd "$REPO" && go build -o "$B/protoc-gen-go" google.golang.org/protobuf/cmd/protoc-gen-go); fi
if [ ! -x "$B/protoc-gen-connect-go" ]; then (cd "$REPO" && go build -o "$B/protoc-gen-connect-go" connectrpc.com/connect/cmd/protoc-gen-connect-go); fi
if [ ! -x "$B/pbgen" ] || [ "$HERE/pbgen/main.go" -nt "$B/pbgen" ]; then (cd "$HERE/pbgen" && go build -o "$B/pbgen" .); fi
PROTOS=$(cd "$REPO" && find . -name '*.proto' | sed 's|^\./||' | sort)
"$B/pbgen" "$REPO" "$OUT" "$B/protoc-gen-go,$B/protoc-gen-connect-go" $PROTOS
