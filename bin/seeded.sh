#!/bin/bash
# seeded.sh [ids...] : for every seeded/<name>/patch.diff apply it to /repo, run the quick check(s) of the property it
# breaks (meta.json: property, also_checks), record caught/missed in seeded/<name>/result.json, and undo the patch.
# /repo must be clean (no uncommitted tracked changes) when this starts.
set -u
HERE=$(cd "$(dirname "$0")/.." && pwd); cd "$HERE"
if [ -n "$(git -C /repo status --porcelain --untracked-files=no)" ]; then echo "/repo has uncommitted tracked changes; refusing"; exit 2; fi
NAMES=${@:-$(ls seeded)}
for n in $NAMES; do
  d=seeded/$n; [ -f $d/patch.diff ] || continue
  prop=$(python3 -c "import json;print(json.load(open('$d/meta.json'))['property'])")
  checks=$(python3 -c "import json;m=json.load(open('$d/meta.json'));print(' '.join([m['property']]+m.get('also_checks',[])))")
  if ! git -C /repo apply --check $HERE/$d/patch.diff 2>/dev/null; then echo "$n: patch does not apply"; continue; fi
  git -C /repo apply $HERE/$d/patch.diff
  res=""
  for c in $checks; do
    [ -f props/$c.json ] || { res="$res $c:noprop"; continue; }
    out=$(VERIF_SEED=${VERIF_SEED:-1} bin/check $c --tier ${TIER:-quick} 2>&1); rc=$?
    v=$(echo "$out" | grep -E '^VIOLATION' | head -1)
    res="$res $c:rc=$rc"
    echo "$out" > $d/last_$c.log
  done
  git -C /repo apply -R $HERE/$d/patch.diff || git -C /repo checkout -- .
  caught=$(echo "$res" | grep -q "$prop:rc=1" && echo true || echo false)
  python3 - <<PY
import json
json.dump({"name":"$n","property":"$prop","results":"$res".split(),"caught_by_own_property":"$caught"=="true"}, open("$d/result.json","w"), indent=1)
PY
  echo "$n ($prop):$res caught=$caught"
done
