#!/bin/bash
# seeded.sh [names...] : for every seeded/<name>/patch.diff make a scratch worktree of /repo HEAD with the patch applied, run the
# quick check(s) of the property it breaks against THAT tree (VERIF_REPO), record caught/missed in seeded/<name>/result.json,
# remove the worktree. /repo itself is not touched, so several can run at once.   TIER=thorough for the thorough tier.
set -u
HERE=$(cd "$(dirname "$0")/.." && pwd); cd "$HERE"
NAMES=${@:-$(ls seeded)}
for n in $NAMES; do
  d=seeded/$n; [ -f $d/patch.diff ] || continue
  prop=$(python3 -c "import json;print(json.load(open('$d/meta.json'))['property'])")
  checks=$(python3 -c "import json;m=json.load(open('$d/meta.json'));print(' '.join([m['property']]+m.get('also_checks',[])))")
  W=/tmp/mut/seeded-$n-$$; mkdir -p /tmp/mut
  git -C /repo worktree add -q --detach $W HEAD
  if ! git -C $W apply $HERE/$d/patch.diff 2>/dev/null; then echo "$n: patch does not apply to HEAD"; git -C /repo worktree remove --force $W; continue; fi
  res=""
  for c in $checks; do
    [ -f props/$c.json ] || { res="$res $c:noprop"; continue; }
    VERIF_REPO=$W VERIF_SEED=${VERIF_SEED:-1} bin/check $c --tier ${TIER:-quick} > $d/last_$c.log 2>&1; rc=$?
    res="$res $c:rc=$rc"
  done
  git -C /repo worktree remove --force $W
  caught=$(echo "$res" | grep -q "$prop:rc=1" && echo true || echo false)
  python3 - <<PY
import json
json.dump({"name":"$n","property":"$prop","results":"$res".split(),"caught_by_own_property":"$caught"=="true",
           "violation_line":[l.strip() for l in open("$d/last_$prop.log") if l.startswith("VIOLATION")][:1] if "$prop:rc" in "$res" else []}, open("$d/result.json","w"), indent=1)
PY
  echo "$n ($prop):$res caught=$caught"
done
