#!/bin/bash
# seeded.sh [names...] : for every seeded/<name>/patch.diff make a scratch worktree of /repo HEAD with the patch applied, run the
# quick check(s) of the property it breaks against THAT tree (VERIF_REPO), record caught/missed in seeded/<name>/result.json,
# remove the worktree. /repo itself is not touched, so several can run at once.   TIER=thorough for the thorough tier.
set -u
HERE=$(cd "$(dirname "$0")/.." && pwd); cd "$HERE"
NAMES=${@:-$(ls seeded)}
for n in $NAMES; do
  d=seeded/$n; [ -f $d/patch.diff ] || continue
  prop=$(python3 -c "import json;print(json.load(open('$d/meta.json'))['property'])")
  checks=$(python3 -c "import json;m=json.load(open('$d/meta.json'));print(' '.join([m['property']]+m.get('also_checks',[])))")
  W=/tmp/mut/seeded-$n-$$; mkdir -p /tmp/mut
  git -C /repo worktree add -q --detach $W HEAD
  if ! git -C $W apply $HERE/$d/patch.diff 2>/dev/null; then echo "$n: patch does not apply to HEAD"; git -C /repo worktree remove --force $W; echo '{"name": "'$n'", "stale": true, "results": [], "note": "patch no longer applies to HEAD: a later fix commit rewrote the lines it changes"}' > $d/result.json; continue; fi
  res=""
  for c in $checks; do
    [ -f props/$c.json ] || { res="$res $c:noprop"; continue; }
    VERIF_REPO=$W VERIF_SEED=${VERIF_SEED:-1} bin/check $c --tier ${TIER:-quick} > $d/last_$c.log 2>&1; rc=$?
    res="$res $c:rc=$rc"
  done
  git -C /repo worktree remove --force $W
  python3 - <<PY
import json, re, os
res = "$res".split()
prop = "$prop"
det = {}
for c in "$checks".split():
    lp = "$d/last_%s.log" % c
    if not os.path.exists(lp): continue
    t = open(lp).read()
    vio = [l.strip() for l in t.splitlines() if l.startswith("VIOLATION")]
    kinds = re.findall(r"^\[check %s\] (spec|model|tie|proof|static-gate): (.*)$" % c, t, re.M)
    codes = re.findall(r"codes (\[[^\]]*\])", t)
    concrete = bool(vio) and not vio[0].endswith("no-failing-input-found")   # spec violation on a concrete input
    det[c] = {"violation": vio[:1], "concrete_input": concrete, "kinds": sorted({k for k, _ in kinds}), "codes": codes[:2],
              "panic_or_hang": ("panicked" in t or "no progress" in t)}
own = det.get(prop, {})
# caught = the check of the property reports a violation that comes from running the changed code: a spec violation on a concrete
# input, or a case on which the implementation differs from the model (reported with no-failing-input-found). A violation that
# comes only from the tooling (kind tie/proof/static-gate: build failure, vanished worktree) does not count.
caught = bool(own.get("violation")) and ("spec" in own.get("kinds", []) or "model" in own.get("kinds", []))
json.dump({"name": "$n", "property": prop, "results": res, "caught_by_own_property": caught, "caught_with_failing_input": bool(own.get("concrete_input")), "details": det}, open("$d/result.json", "w"), indent=1)
open("$d/.caught", "w").write("true" if caught else "false")
PY
  caught=$(cat $d/.caught); rm -f $d/.caught
  echo "$n ($prop):$res caught=$caught"
done
