#!/bin/bash
# The repository's pinned baseline with the verif guard OFF (no -tags verif, no overlay): same command as /root/.vp/BASELINE.json.
set -uo pipefail
. "$(cd "$(dirname "$0")" && pwd)/goenv.sh"
cd /repo && go test -json -vet=off -count=1 -timeout 25m ./...
