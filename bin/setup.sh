#!/bin/bash
# Run once after a fresh restore, offline: build the Coq development, pbgen + plugins, warm the Go build cache.
set -euo pipefail
HERE=$(cd "$(dirname "$0")/.." && pwd)
cd "$HERE"
bin/mkcoqproject.sh
timeout 7200 make -C coq -k -j16 || echo "WARNING: some Coq files did not build (each check rebuilds its own targets)"
mkdir -p .build .scratch
bin/pbgen.sh "$HERE/.scratch/pb-setup"
. bin/goenv.sh
cp /repo/go.sum harness/go.sum
(cd harness && go build -tags verif -overlay "$HERE/.scratch/pb-setup/overlay.json" -o "$HERE/.build/" ./cmd/... ) || echo "WARNING: some engines did not build"
rm -rf "$HERE/.scratch/pb-setup"
echo setup done
